#!/usr/bin/env python3
"""Writes MANIFEST.json from the table below (single source of truth)."""
import json, os
ROOT = os.path.dirname(os.path.dirname(os.path.abspath(__file__)))
CHECKS = {}
def check(pid, category, text, note, technique, design_ref):
  CHECKS[pid] = dict(
      property_id=pid,
      quick_cmd='./check %s --tier quick' % pid,
      thorough_cmd='./check %s --tier thorough' % pid,
      evidence_file='evidence/%s.json' % pid,
      replay_cmd_template='./check %s --replay {path}' % pid,
      engine='mc',
      level_claimed=dict(category=category, text=text, design_ref=design_ref),
      level_note=note, technique=technique)

exec(open(os.path.join(ROOT, 'tools', 'manifest_table.py')).read())

props = [json.loads(l)['id'] for l in open(os.path.join(ROOT, 'properties.jsonl'))]
man = dict(
    version=1,
    setup_cmd='./check --selftest',
    hooks=dict(guard='BRAX_VERIF', enable='no hooks are needed: brax is an editable install, checks import /repo/brax as it is; BRAX_VERIF=1 is exported by ./check but nothing in /repo reads it',
               baseline_off_cmd='cd /repo && /venv/bin/python -m pytest -ra -q -p no:cacheprovider --timeout=900 --continue-on-collection-errors',
               source_commits=[], add_only=True),
    engines=[dict(name='mc', path='mc/', serves_properties=sorted(CHECKS),
                  kind_free_text='hand-written bounded exhaustive explorer in Python: explicit-state DFS/BFS over operation sequences on the real objects (seqx), small-scope model enumeration (scope), tensor grids / determining sets (grids), MuJoCo reference oracle (mjref)')],
    checks=[CHECKS[p] for p in props if p in CHECKS],
    not_applicable=[dict(property_id=p, reason=NA.get(p, 'check not built yet in this round; see DESIGN.md section 4 for the planned bounded exhaustive check')) for p in props if p not in CHECKS],
    notes='All checks run /venv/bin/python against the editable install of /repo; evidence is written by mc/run.py from counters measured by the tasks.')
json.dump(man, open(os.path.join(ROOT, 'MANIFEST.json'), 'w'), indent=1)
print('checks:', sorted(CHECKS), 'not_applicable:', [p for p in props if p not in CHECKS])
