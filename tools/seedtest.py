#!/usr/bin/env python3
"""Confirm a seeded change and run checks against it.

usage: seedtest.py confirm <dir> [test files...]   -> demo passes clean / fails patched in scratch worktree /tmp/wt_confirm, tests run patched
       seedtest.py check <dir> <ID[,ID]> [tier]     -> apply patch to /repo, run checks, always revert
"""
import json, os, subprocess, sys
WT = '/tmp/wt_confirm'
ENV = dict(os.environ, JAX_PLATFORMS='cpu', PYTHONPATH=WT)

def sh(cmd, **kw):
  return subprocess.run(cmd, shell=True, capture_output=True, text=True, **kw)

def confirm(d, tests):
  if not os.path.isdir(WT):
    r = sh('git -C /repo worktree add -q --detach %s HEAD' % WT); assert r.returncode == 0, r.stderr
  sh('git -C %s checkout -q --detach main && git -C %s checkout -- .' % (WT, WT))
  out = {}
  r = sh('/venv/bin/python %s/demo.py' % d, env=ENV, cwd=WT); out['demo_clean_rc'] = r.returncode
  r = sh('git -C %s apply %s/patch.diff' % (WT, d)); assert r.returncode == 0, r.stderr
  r = sh('/venv/bin/python %s/demo.py' % d, env=ENV, cwd=WT); out['demo_patched_rc'] = r.returncode
  out['demo_patched_tail'] = (r.stdout + r.stderr)[-400:]
  if tests:
    r = sh('/venv/bin/python -m pytest -q -p no:cacheprovider -x %s 2>&1 | tail -3' % ' '.join(tests), env=ENV, cwd=WT)
    out['tests_patched'] = r.stdout.strip()
  sh('git -C %s checkout -- .' % WT)
  print(json.dumps(out, indent=1))

def check(d, pids, tier):
  """Runs the checks against a scratch worktree with the patch applied
  (VERIF_REPO), so that /repo itself is never touched."""
  W = '/tmp/wt_seed'
  if not os.path.isdir(W):
    r = sh('git -C /repo worktree add -q --detach %s main' % W); assert r.returncode == 0, r.stderr
  sh('git -C %s checkout -q --detach main && git -C %s checkout -- .' % (W, W))
  r = sh('git -C %s apply %s/patch.diff' % (W, d)); assert r.returncode == 0, r.stderr
  try:
    for pid in pids.split(','):
      r = subprocess.run(['/verif/check', pid, '--tier', tier], capture_output=True, text=True,
                         env=dict(os.environ, VERIF_REPO=W))
      lines = [l for l in r.stdout.splitlines() if l.startswith(('VIOLATION', 'OK', 'FAIL', 'KNOWN', '  key'))]
      print('\n'.join(lines[:6] + lines[-1:]))
      print('SEEDED %s %s rc=%d' % (d, pid, r.returncode))
  finally:
    sh('git -C %s checkout -- .' % W)

if sys.argv[1] == 'confirm':
  confirm(os.path.abspath(sys.argv[2]), sys.argv[3:])
else:
  check(os.path.abspath(sys.argv[2]), sys.argv[3], sys.argv[4] if len(sys.argv) > 4 else 'quick')
