NA = {}
check('C17', 'model_checking',
      'Explicit-state exploration of the real Queue / UniformSamplingQueue / PmapWrapper / PjitWrapper objects: every operation sequence over {insert k, sample} up to the tier depth for capacity 1-5, batch 1-4, all modes, 2-4 shards, each transition compared with a list-based reference model; then BFS closure of the canonical state graph.',
      'Trusts the 40-line reference model and data independence of the implementation (cross-checked by bisimulation on the full tree). Sampling an empty uniform queue is not enabled.',
      'explicit-state DFS over all op sequences + BFS closure, real implementation stepped, reference-model oracle', 'DESIGN.md 4/C17')
