NA = {}
check('C17', 'model_checking',
      'Explicit-state exploration of the real Queue / UniformSamplingQueue / PmapWrapper / PjitWrapper objects: every operation sequence over {insert k, sample} up to the tier depth for capacity 1-5, batch 1-4, all modes, 2-4 shards, each transition compared with a list-based reference model; then BFS closure of the canonical state graph.',
      'Trusts the 40-line reference model and data independence of the implementation (cross-checked by bisimulation on the full tree); tla/ReplayQueue.tla is a second, independent reference checked by TLC (invariants) and bound to the code by replaying every edge of its state graph. Sampling an empty uniform queue is not enabled.',
      'explicit-state DFS over all op sequences + BFS closure on the real implementation with a reference-model oracle; TLC-explored TLA+ model whose full state graph is replayed edge by edge against the implementation', 'DESIGN.md 4/C17, 10')
check('C15', 'model_checking',
      'Explicit-state exploration of the real training.wrap / EvalWrapper / generate_unroll / Evaluator on a scripted environment whose done answer the explorer owns: all done-patterns up to the tier depth expanded level-synchronously as members of one batch for L in 1..6, R in 1..3, every member compared with a per-member reference after every wrapped step, then BFS with canonical de-duplication to closure.',
      'Trusts the 50-line per-member reference; least-demanding reading of mid-repeat termination (done flag after the last sub-step). brax.v1 is stubbed so acting imports.',
      'explicit-state level-synchronous tree expansion + canonical-state BFS closure on the real wrappers, reference-model oracle', 'DESIGN.md 4/C15')
check('C18', 'model_checking',
      'All update histories of a data set: the full tree of compositions into consecutive batches x batch-axis factorisations x weight assignments (exhaustive in {0..4}^n for n<=4) is walked on the real update(); every node compared with exact Fraction statistics of the consumed prefix; normalize/denormalize checked at leaves.',
      'Trusts exact rational arithmetic; tolerance 1e-9 of the data scale (float64).',
      'explicit enumeration of all batch-partition histories with prefix sharing, exact-arithmetic oracle at every state', 'DESIGN.md 4/C18')
check('C19', 'exploration',
      'Every mask word over {none,terminated,truncated}^T (exhaustive to T=6 quick / 8 thorough, structured beyond) x (lambda,discount) grid x basis of the linear input space, compared with the defining sum in exact rational arithmetic; gradient required exactly zero.',
      'Linearity in rewards/values/bootstrap makes the basis a determining set; degree<=T polynomial in lambda, discount decided for T<=3.',
      'bounded exhaustive enumeration of mask histories x determining input set, exact-arithmetic oracle', 'DESIGN.md 4/C19')
check('C20', 'exploration',
      'Full grid products over location, raw scale, pre-squash action (to |x|=40), min_std, var_scale, event sizes 1-6, batch shapes and keys; log_prob, scale and entropy compared with a 100+ digit decimal evaluation; range, determinism, reparameterisation (noise independence and gradient), bijector round trip, density normalisation; PPO inference function on array and dict observations with non-trivial normaliser statistics.',
      'Grid claim only (transcendental functions: no determining set). Reference is python decimal, independent of jax numerics.',
      'bounded exhaustive grid enumeration with high-precision reference oracle', 'DESIGN.md 4/C20')
check('C09', 'exploration',
      'Every polynomial law of the spatial algebra is evaluated exactly (float64 on small integers) on the full tensor product of determining sets for its per-block degrees plus seeded [-9,9] lattice points, which decides the identity over the reals; laws that divide or need unit quaternions are checked on all 624 integer quaternion directions in [-2,2]^4 x lattice vectors at 1e-12.',
      'Degree table per law (guarded by the extra lattice points); exactness of float64 on integers < 2^53.',
      'exhaustive evaluation on determining sets (tensor-product unisolvence), exact arithmetic', 'DESIGN.md 4/C09')
check('C13', 'exploration',
      'Exhaustive insertion of 1-3 levels of jointless bodies (8 pose modes each incl. single-axis and un-normalised quats, all 15 content subsets at depth 1, sibling pairs) at every host of 4 base documents; MuJoCo forward kinematics of the original vs the fused document matched by element name, plus composite mass/COM/inertia of every moving body.',
      'MuJoCo compiler is the reference; tolerance 5e-6 per level because the loader prints six decimals. Un-normalised jointless quats are a listed known finding (differential: the disagreement must vanish when the harness pre-normalises exactly those quats).',
      'bounded exhaustive enumeration of documents (programs), reference-engine oracle', 'DESIGN.md 4/C13')
check('C10', 'exploration',
      'Every sphere/capsule type assignment over 2-3 free bodies plus a plane (aligned and tilted) and a two-geom body, 2^3 parameter sets, (24 cube rotations + generic)^2 link orientations x 5 designed separations x directions: every candidate row of contact.get compared with closed-form signed distance, normal direction, owning links and mean elasticity.',
      'Closed forms for point/segment/plane distances are the reference. Distances 1e-9 (plane), 1e-7 (capsule pairs; mjx regularises closest points with 1e-6 terms), 1e-5 when centre lines touch; normals at 1e-3 where closest points are >= 2 cm apart.',
      'bounded exhaustive enumeration of scenes x pose grid, closed-form oracle', 'DESIGN.md 4/C10')
check('C14', 'exploration',
      'Sub-scope of generator models x {clean} u {each of 20 unsupported-feature injections at every eligible element}; injected documents that MuJoCo compiles must raise on load or in every native pipeline init; clean documents must load and agree with the source on counts, link types, parent order, actuator indices, init_q and pose.',
      'Feature list from the property statement; MuJoCo compile filters illegal documents (discarded and counted).',
      'bounded exhaustive enumeration of configurations x injection sites', 'DESIGN.md 4/C14')
check('C11', 'exploration',
      'All actuator lists of length 0-2 (3 in thorough, plus lists of 10) over joint x kind x ctrl-limited x force-limited on 4 base models (incl. free root before the actuated joints, stacked joints, two roots) x 4 states x full ctrl grid containing the range bounds exactly; compared with MuJoCo qfrc_actuator; exact zero on un-actuated dofs, monotone along each control, constant outside the control range.',
      'MuJoCo actuator model is the reference; piecewise-linear dependence with breakpoints in or bracketed by the grid.',
      'bounded exhaustive enumeration of actuator lists x ctrl grid, reference-engine oracle', 'DESIGN.md 4/C11')
check('C01', 'exploration',
      'Small-scope enumeration of kinematic forests (full product of joint kind x axis alphabet x body pose x anchor x geom for one link; reduced template alphabet for 2 links; every shape x link-type string for 3 links; larger in thorough) x tensor grid of 3 angles per hinge / 2 values per slide / root poses incl. the 24 cube rotations x qd basis, compared with MuJoCo xpos/xmat/object velocities of the model compiled from the same fused XML.',
      'MuJoCo is the reference. FK is multi-affine in (cos q, sin q) per hinge and affine per slide, velocity linear in qd: the grids are determining sets for each enumerated model. Velocities outside the claimed class are a listed known finding.',
      'small-scope exhaustive model enumeration x determining input grids, reference-engine oracle', 'DESIGN.md 4/C01')
check('C02', 'exploration',
      'C01 model scope with passive-force letters, actuator pairs and generic gravity dealt over the models (exact mass-matrix inverse): mass matrix on hinge(5) x slide(3) grids (symmetry, Cholesky, equality with mj_fullM), bias on q-grid x quadratic determining set of qd, passive/actuator/smooth forces on a ctrl grid incl. range bounds, 1 and 5 contact-free steps vs mj_step.',
      'MuJoCo 3.13 is the reference. Terms are (trigonometric) polynomials of the stated degree: grids are determining sets per model; the step is a grid claim. Steps where MuJoCo itself reports instability are counted, not compared.',
      'small-scope exhaustive model enumeration x determining input grids, reference-engine oracle', 'DESIGN.md 4/C02')
check('C04', 'model_checking',
      'Every node of the action-word tree ({-1,0,+1}^min(nu,2) letters held h steps, depth L, 4 initial states) of every free-rooted model skeleton (<= 3 links) and 4 two-body collision scenes in the spring and positional pipelines: momentum balance after every physics step; rest case on a tensor grid of |q|<=1 for all three pipelines.',
      'Momentum read from xd_i (COM velocities); tolerance is the round-off scale of the sum. Rest failures of mixed hinge/slide stacks other than S..SH in spring/positional are a listed known finding.',
      'exhaustive expansion of the control-word tree on the real step function, invariant checked at every state', 'DESIGN.md 4/C04')
check('C03', 'exploration',
      'Models with orthogonal stacked axes x three pipelines x n in {1,2} (5 in thorough) steps: jax.grad of a fixed weighted sum of link positions/velocities and joint state w.r.t. (q, qd, ctrl) must be finite on the singular set (qd=0, q=0, each coordinate at 0, axis-aligned root rotations, coincident anchors, ctrl on a bound, exact rest in zero gravity), in two programs (system as jit argument / closed over as a constant, which XLA simplifies differently), and equal the central difference on seeded regular points, incl. a point where every joint limit is active during the whole rollout.',
      'Finite differences are a numerical oracle with band 1e-4(1+|g|); a coordinate is compared only where central differences at h=1e-5,1e-6,1e-7 agree (smooth at the stencil scale; counts in the evidence); mixed hinge/slide stacks are exercised on the generalized pipeline only.',
      'bounded enumeration of models x singular/regular input sets, finite-difference oracle', 'DESIGN.md 4/C03')
check('C05', 'exploration',
      'Equivariance step(g.s) = g.step(s) for every free-rooted contact-free skeleton (<= 3 links) x states x group alphabet (cube rotations + generic rotations x translations) x 1 and 5 steps x 3 pipelines; every permutation of every sibling group; every ordered pair of a model sub-alphabet merged into one document vs alone.',
      'Tolerance 1e-8 (1 step) / 1e-6 (5 steps); reported joint coordinates at 10x (arccos conditioning); diverging runs counted, not compared.',
      'small-scope exhaustive enumeration of models x group elements / permutations / pairs, differential oracle', 'DESIGN.md 4/C05')
check('C06', 'model_checking',
      'Inert contacts / limits: variants of every model skeleton differ only in collidable-but-separated geometry (ground 3 cm below the lowest geom point as measured by MuJoCo, 5 cm contact margin) or unreached limits (symmetric, and ranges excluding zero) and must give identical single steps (unit quaternions everywhere); push-only over shapes x orientations x densities x depths x gravity; every step of 3 s resting histories over a size x density x height lattice; rebound ratios over radius x elasticity x height (spring, positional).',
      'Thresholds: 5 cm / 5 mm resting, rebound margins from the property. Push-only is judged on the contact contribution relative to free fall. Positional velocity over-correction of tilted non-spherical bodies, limits on non-orthogonal stacks (spring/positional) and on left-handed three-hinge stacks (positional) are listed known findings.',
      'exhaustive enumeration of scene lattices with per-step invariants on real pipeline histories; differential oracle for inertness', 'DESIGN.md 4/C06')
check('C07', 'exploration',
      'vmap vs solo for 8 models x 3 pipelines x batch sizes 2,3,8 with ALL ordered pairs of an 8-state alphabet (bitwise independence of a member from its neighbour inside one executable); jit vs eager; all 64 termination schedules as members of the wrapped scripted env in three member orders vs solo; DomainRandomizationVmapWrapper members (mass x friction x gear x timestep scalings, 4 bundled envs) vs solo envs built from the member system by re-running the PipelineEnv constructor, compared on obs/reward/done and every pipeline-state leaf from reset on.',
      'Batched vs solo executables may re-associate sums (1e-7); independence inside one executable is bitwise.',
      'bounded exhaustive enumeration of batch compositions, differential oracle (batched vs solo)', 'DESIGN.md 4/C07')
check('C08', 'exploration',
      'inverse(world_to_joint(forward(q,qd))) = (q,qd) over the claimed class of stacks x orthogonal axis frames (both handedness, oblique) x pose x anchor x root kind, 5 angles per hinge inside the Euler chart, 3 per slide, cube-rotation root poses, qd basis; spring/positional reported (q,qd) after a step are the inverse image of the reported link poses.',
      'Positions at 1e-7 (arccos conditioning), velocities at 1e-9 for free and single-hinge links; hinge-before-slide positions and prismatic/stacked velocities are listed known findings.',
      'small-scope exhaustive model enumeration x input grids, round-trip oracle', 'DESIGN.md 4/C08')
check('C12', 'model_checking',
      'Histories of the real generalized step at dt, dt/2, dt/4 (refined to dt/4..dt/16 before reporting) for conservative models over all skeletons up to 3 links x 8 initial states: energy (and momentum for free-floating forests) drift must shrink with the step size and its quadratic Richardson extrapolation to h=0 must vanish.',
      'Energy computed by the harness from mass_mx and COM positions; momentum as (M qd) on root translations; runs meeting near-singular inertia (cond>1e5) or |qd|>50 are counted, not compared; thresholds 0.9 / 0.25 of the drift envelope.',
      'bounded enumeration of models x initial states, step-size refinement histories with extrapolation oracle', 'DESIGN.md 4/C12')
check('C16', 'model_checking',
      'Every registered physics env x every backend its constructor accepts x reset keys x the full action-word tree over a 5-letter alphabet plus 32 (144 thorough) fast seeded bang-bang members (all as batch members through training.wrap): contract (observation/action size, done=0 after reset, bitwise determinism of reset and of the whole rollout) and finiteness + unit quaternions at every step of every word. float32 on purpose.',
      'Finite key set and action alphabet; swimmer step TypeError is a listed known finding.',
      'exhaustive expansion of the action-word tree on the real wrapped environments, invariant checked at every step', 'DESIGN.md 4/C16')
