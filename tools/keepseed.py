#!/usr/bin/env python3
"""keepseed.py <srcdir> <seedid> <property> <caught:quick|thorough|missed> "<needs>" "<tests run>"  -- after confirm."""
import json, os, shutil, subprocess, sys
src, sid, prop, caught, needs, ran = sys.argv[1:7]
dst = '/verif/seeded/' + sid
os.makedirs(dst, exist_ok=True)
for f in ('patch.diff', 'demo.py', 'notes.md'):
  if os.path.exists(os.path.join(src, f)):
    shutil.copy(os.path.join(src, f), dst)
r = subprocess.run(['/verif/tools/seedtest.py', 'confirm', src] + sys.argv[7:], capture_output=True, text=True)
conf = json.loads(r.stdout) if r.returncode == 0 else {'error': r.stderr[-500:]}
meta = dict(property=prop, needs_to_manifest=needs, confirmed=conf, ran=ran, detected_by=caught,
            origin='independent sub-agent given only the property text and a scratch worktree')
json.dump(meta, open(os.path.join(dst, 'meta.json'), 'w'), indent=1)
print(sid, conf.get('demo_clean_rc'), conf.get('demo_patched_rc'), conf.get('tests_patched'))
