#!/bin/bash
# usage: tools/sweep.sh "<seeds>" [tier] [ids...]  -- runs checks, prints one line per run
seeds=${1:-"1 2 3"}; tier=${2:-quick}; shift; shift
ids=${@:-"C01 C02 C03 C04 C05 C06 C07 C08 C09 C10 C11 C12 C13 C14 C15 C16 C17 C18 C19 C20"}
cd "$(dirname "$0")/.."
for s in $seeds; do for c in $ids; do
  out=$(VERIF_SEED=$s timeout 7200 ./check $c --tier $tier 2>&1); rc=$?
  echo "seed=$s $c rc=$rc $(echo "$out" | grep -E '^(OK|FAIL)' | tail -1)"
  if [ $rc -ne 0 ]; then echo "$out" | grep -E "VIOLATION|key=|HARNESS|Error" | cut -c1-300 | head -8; fi
done; done
