#!/usr/bin/env python3
"""Apply a one-off textual mutation to /repo, run a check, always revert.

usage: mut.py <relpath> <old> <new> <ID> [tier]   (old must occur exactly once
unless prefixed by N: to pick the N-th occurrence, 0-based)
"""
import os, subprocess, sys, re
rel, old, new, pid = sys.argv[1:5]
tier = sys.argv[5] if len(sys.argv) > 5 else 'quick'
path = '/repo/' + rel
src = open(path).read()
idx = 0
m = re.match(r'^(\d+):', old)
if m:
  idx = int(m.group(1)); old = old[m.end():]
n = src.count(old)
if n == 0 or (n > 1 and not m):
  sys.exit('pattern occurs %d times' % n)
pos = -1
for _ in range(idx + 1):
  pos = src.index(old, pos + 1)
mut = src[:pos] + new + src[pos + len(old):]
try:
  open(path, 'w').write(mut)
  rc = 0
  for p in pid.split(','):
    r = subprocess.run(['/verif/check', p, '--tier', tier], capture_output=True, text=True, env=dict(os.environ, VERIF_NO_EVIDENCE='1'))
    out = [l for l in r.stdout.splitlines() if l.startswith(('VIOLATION', 'OK', 'FAIL', 'KNOWN', '  key'))]
    print('\n'.join(out[:8]))
    err = [l for l in r.stderr.splitlines() if 'HARNESS' in l or 'Error' in l]
    print('\n'.join(err[:5]))
    print('MUTANT %s rc=%d  [%s :: %r -> %r]' % (p, r.returncode, rel, old[:50], new[:50]))
finally:
  open(path, 'w').write(src)
  subprocess.run(['git', '-C', '/repo', 'diff', '--quiet']) 
