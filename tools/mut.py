#!/usr/bin/env python3
"""Apply a one-off textual mutation to a scratch worktree of /repo
(/tmp/wt_mut, used through VERIF_REPO), run checks, always revert.  /repo
itself is never touched.

usage: mut.py <relpath> <old> <new> <ID[,ID]> [tier]   (old must occur exactly
once unless prefixed by N: to pick the N-th occurrence, 0-based)
"""
import os, re, subprocess, sys
W = '/tmp/wt_mut'
rel, old, new, pid = sys.argv[1:5]
tier = sys.argv[5] if len(sys.argv) > 5 else 'quick'
if not os.path.isdir(W):
  subprocess.run(['git', '-C', '/repo', 'worktree', 'add', '-q', '--detach', W, 'main'], check=True)
subprocess.run('git -C %s checkout -q --detach main && git -C %s checkout -- .' % (W, W), shell=True, check=True)
path = os.path.join(W, rel)
src = open(path).read()
idx = 0
m = re.match(r'^(\d+):', old)
if m:
  idx = int(m.group(1)); old = old[m.end():]
n = src.count(old)
if n == 0 or (n > 1 and not m):
  sys.exit('pattern occurs %d times' % n)
pos = -1
for _ in range(idx + 1):
  pos = src.index(old, pos + 1)
mut = src[:pos] + new + src[pos + len(old):]
try:
  open(path, 'w').write(mut)
  for p in pid.split(','):
    r = subprocess.run(['/verif/check', p, '--tier', tier], capture_output=True, text=True,
                       env=dict(os.environ, VERIF_REPO=W))
    out = [l for l in r.stdout.splitlines() if l.startswith(('VIOLATION', 'OK', 'FAIL', 'KNOWN', '  key'))]
    keys = [l for l in out if l.startswith('  key')]
    print('\n'.join(keys[:3]))
    err = [l for l in r.stderr.splitlines() if 'HARNESS' in l]
    print('\n'.join(err[:3]))
    print('MUTANT %s rc=%d  [%s :: %r -> %r]' % (p, r.returncode, rel, old[:60], new[:60]))
finally:
  open(path, 'w').write(src)
