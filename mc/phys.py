"""Shared physics-check helpers: model scopes, skeleton grouping, jit reuse."""

import itertools

import numpy as np

from mc import scope

# reduced alphabet of maximally different link templates (kind x variation)
RED_KINDS = ['H', 'S', 'HS', 'SH', 'HH', 'SS', 'HSH', 'SHS']
# variation -> (axes id, pose id, anchor id, geom id)
VARIATIONS = [(0, 0, 0, 0), (2, 3, 1, 1), (3, 2, 0, 1), (1, 1, 1, 0)]


def tmpl(kind, parent, rng, var, passive=0, limits=0):
  a, p, b, g = VARIATIONS[var]
  if kind == 'F':
    b = 0
  return scope.link(kind, parent, rng, aid=a, pose=p, anchor=b, geom=g,
                    passive=passive, limits=limits)


def spec_of(links, **kw):
  s = dict(links=links)
  s.update(kw)
  return s


def n1_full(seed, with_free=True, passive=0, limits=0, axes_ids=(0, 1, 2, 3)):
  """Full product K x A x P x B x G for one link."""
  out = []
  if with_free:
    for p, g in itertools.product(range(4), range(2)):
      rng = scope.rng_for(seed, 'n1F', p, g)
      out.append(spec_of([scope.link('F', -1, rng, pose=p, geom=g)]))
  for kind in scope.KINDS_JOINTED:
    for a, p, b, g in itertools.product(axes_ids, range(4), range(2),
                                        range(2)):
      rng = scope.rng_for(seed, 'n1', kind, a, p, b, g)
      out.append(spec_of([scope.link(kind, -1, rng, aid=a, pose=p, anchor=b,
                                     geom=g, passive=passive,
                                     limits=limits)]))
  return out


def n2_reduced(seed, nvar=3, passive=0, limits=0, free_roots=True,
               kinds=None):
  """shapes(2) x reduced template alphabet for root and child."""
  out = []
  kinds = kinds or RED_KINDS
  T = [(k, v) for k in kinds for v in range(nvar)]
  R = T + ([('F', v) for v in range(min(3, nvar))] if free_roots else [])
  for shape in scope.shapes(2):
    for (k0, v0) in R:
      for (k1, v1) in (R if shape[1] == -1 else T):
        rng = scope.rng_for(seed, 'n2', shape, k0, v0, k1, v1)
        out.append(spec_of([
            tmpl(k0, -1, rng, v0, passive, limits),
            tmpl(k1, shape[1], rng, v1, passive, limits)]))
  return out


def type_strings(shape, free_roots=True):
  opts = []
  for p in shape:
    opts.append(['1', '2', '3'] + (['f'] if (p == -1 and free_roots) else []))
  return [''.join(t) for t in itertools.product(*opts)]


def nk_skeletons(n, seed, assignments=1, passive=0, limits=0, shapes=None,
                 free_roots=True, kinds_filter=None):
  """all shapes x all link-type strings, `assignments` seeded H/S words and
  template variations per skeleton."""
  out = []
  for shape in (shapes or scope.shapes(n)):
    for ts in type_strings(shape, free_roots):
      for a in range(assignments):
        rng = scope.rng_for(seed, 'nk', shape, ts, a)
        links = []
        for i, (p, t) in enumerate(zip(shape, ts)):
          if t == 'f':
            kind = 'F'
          else:
            while True:
              kind = ''.join(rng.choice(['H', 'S'], size=int(t)))
              if kinds_filter is None or kinds_filter(kind):
                break
          var = int(rng.randint(len(VARIATIONS)))
          # make sure children are not all coincident with their parent
          if p >= 0 and VARIATIONS[var][1] in (0, 2) and rng.rand() < 0.7:
            var = 1 if rng.rand() < 0.5 else 3
          links.append(tmpl(kind, p, rng, var, passive, limits))
        out.append(spec_of(links))
  return out


def group_by_skeleton(specs, per_task=None):
  groups = {}
  for s in specs:
    groups.setdefault(scope.skeleton(s), []).append(s)
  tasks = []
  for k, v in groups.items():
    if per_task:
      for i in range(0, len(v), per_task):
        tasks.append((k, v[i:i + per_task]))
    else:
      tasks.append((k, v))
  return tasks


def strip(sys):
  """System as a jit ARGUMENT: drop the (unhashable, static) MuJoCo model so
  that all models of a skeleton share one executable."""
  return sys.replace(mj_model=None)


def link_classes(spec):
  """Per link: True if the link and all its ancestors are attached by a free
  joint or a single hinge/slide anchored at the link origin (C01/C08 claimed
  velocity class)."""
  ok = []
  for i, l in enumerate(spec['links']):
    own = l['kind'] == 'F' or (len(l['kind']) == 1 and l.get('anchor') is None)
    par = True if l['parent'] < 0 else ok[l['parent']]
    ok.append(bool(own and par))
  return ok


def describe(spec):
  return dict(parents=[l['parent'] for l in spec['links']],
              kinds=[l['kind'] for l in spec['links']],
              axes=[l['axes'] for l in spec['links']],
              pos=[l.get('pos') for l in spec['links']],
              quat=[l.get('quat') for l in spec['links']],
              anchor=[l.get('anchor') for l in spec['links']],
              geom=[l['geom']['type'] if 'geom' in l else None
                    for l in spec['links']])


def maximal_supported(kind):
  """Joint stacks the maximal-coordinate pipelines (spring, positional) and
  kinematics.inverse represent faithfully: free, all hinges, all slides, or
  slides followed by ONE hinge (the class named in C08's quantifier)."""
  import re
  return kind == 'F' or set(kind) <= {'H'} or set(kind) <= {'S'} or bool(
      re.fullmatch('S+H', kind))


def all_supported(spec):
  return all(maximal_supported(l['kind']) for l in spec['links'])


def star_forests(max_links=6):
  """Forests of depth <= 1: r roots in {2,3}, every composition of the
  children over the roots (uneven counts such as 2/0/1 exercise the level
  grouping of scan.tree)."""
  out = []
  for r in (2, 3):
    for c in range(1, max_links - r + 1):
      for comp in itertools.product(range(c + 1), repeat=r):
        if sum(comp) != c:
          continue
        par = []
        for k in comp:
          root = len(par)
          par.append(-1)
          par += [root] * k
        out.append(tuple(par))
  return out


def level_pattern_models(seed, shapes, tag='lvl'):
  """One model per shape, every link a single hinge or slide (type string all
  '1', so skeleton = shape), distinct poses/axes per link."""
  out = []
  for sh in shapes:
    rng = scope.rng_for(seed, tag, sh)
    links = []
    for i, p in enumerate(sh):
      kind = 'H' if rng.rand() < 0.6 else 'S'
      l = tmpl(kind, p, rng, 1 if i % 2 else 3)
      l['anchor'] = None
      links.append(l)
    out.append(spec_of(links))
  return out


def orthogonal_stacks(spec):
  """True if the axes of every joint stack are mutually orthogonal."""
  import numpy as _np
  for l in spec['links']:
    a = _np.array(l['axes'], float).reshape(-1, 3)
    for i in range(len(a)):
      for j in range(i):
        if abs(a[i] @ a[j]) > 1e-9:
          return False
  return True
