"""ENGINE A: small-scope model generator (MJCF text) and input grids.

A model is a JSON-able *spec*; `to_xml` renders it as MJCF text so that the
real loader (fuse, MuJoCo compile, load_model) is always on the path.
Enumeration is simplest-first.
"""

import itertools
import math as pymath

import numpy as np

KINDS_JOINTED = [''.join(w) for n in (1, 2, 3)
                 for w in itertools.product('HS', repeat=n)]


def shapes(n):
  """All pre-order parent vectors of n links (forests under the world)."""
  out = []

  def rec(par):
    i = len(par)
    if i == n:
      out.append(tuple(par))
      return
    # candidates: -1 and every node on the path from i-1 to its root
    cands = [-1]
    j = i - 1
    chain = []
    while j >= 0:
      chain.append(j)
      j = par[j]
    for c in sorted(set(cands + chain)):
      rec(par + [c])

  rec([])
  return sorted(out, key=lambda p: (max(_depths(p)), p))


def _depths(par):
  d = []
  for i, p in enumerate(par):
    d.append(0 if p < 0 else d[p] + 1)
  return d


def rng_for(seed, *salt):
  h = 1469598103934665603
  for s in (seed,) + salt:
    for ch in str(s):
      h = ((h ^ ord(ch)) * 1099511628211) % (1 << 61)
  return np.random.RandomState(h % (2 ** 32 - 1))


def unit(v):
  v = np.asarray(v, float)
  return v / np.linalg.norm(v)


def generic_quat(rng):
  """Generic unit quaternion, not within 15 degrees of an axis-aligned one."""
  while True:
    q = unit(rng.normal(size=4))
    if np.max(np.abs(q)) < 0.85 and np.min(np.abs(q)) > 0.15:
      return q


def cube_rotations():
  """The 24 proper rotations of the cube as exact quaternions."""
  qs = []
  s = pymath.sqrt(0.5)
  cands = []
  for w in itertools.product((-1, 0, 1), repeat=4):
    nz = sum(1 for x in w if x)
    if nz == 1:
      cands.append(np.array(w, float))
    elif nz == 2:
      cands.append(np.array(w, float) * s)
    elif nz == 4:
      cands.append(np.array(w, float) * 0.5)
  seen = []
  for q in cands:
    if q[np.nonzero(q)[0][0]] < 0:
      continue
    if not any(np.allclose(q, r) for r in seen):
      seen.append(q)
  assert len(seen) == 24, len(seen)
  return seen


def axes(aid, n, rng):
  """n joint axes for alphabet letter aid in a0..a3."""
  if aid == 0:
    base = [[1, 0, 0], [0, 1, 0], [0, 0, 1]]
  elif aid == 1:
    base = [[0, 0, 1], [-1, 0, 0], [0, 1, 0]]
  elif aid == 2:
    q = generic_quat(rng)
    from_q = _quat_to_mat(q)
    base = [from_q[:, 0], from_q[:, 1], from_q[:, 2]]
  else:
    while True:
      base = [unit(rng.normal(size=3)) for _ in range(3)]
      ok = all(abs(np.dot(base[i], base[j])) < pymath.cos(pymath.radians(25))
               for i in range(3) for j in range(i))
      if ok:
        break
  return [list(map(float, b)) for b in base[:n]]


def _quat_to_mat(q):
  w, x, y, z = q
  return np.array([
      [1 - 2 * (y * y + z * z), 2 * (x * y - w * z), 2 * (x * z + w * y)],
      [2 * (x * y + w * z), 1 - 2 * (x * x + z * z), 2 * (y * z - w * x)],
      [2 * (x * z - w * y), 2 * (y * z + w * x), 1 - 2 * (x * x + y * y)]])


def link(kind, parent, rng, aid=0, pose=0, anchor=0, geom=0, passive=0,
         limits=0, name=None):
  """One link template.  kind: 'F' or word over {H,S}."""
  l = dict(kind=kind, parent=parent)
  nj = 0 if kind == 'F' else len(kind)
  l['axes'] = axes(aid, nj, rng) if nj else []
  l['pos'] = list(map(float, rng.uniform(-0.4, 0.4, 3))) if pose in (1, 3) \
      else None
  l['quat'] = list(map(float, generic_quat(rng))) if pose in (2, 3) else None
  if pose == 0 and parent >= 0:
    # children need some offset from the parent origin to be interesting, but
    # p0 means "no pose attributes": keep none (coincident anchors)
    pass
  l['anchor'] = list(map(float, rng.uniform(-0.2, 0.2, 3))) if anchor else None
  if geom == 0:
    l['geom'] = dict(type='sphere', size=[0.1], pos=None, quat=None)
  else:
    l['geom'] = dict(type='box' if rng.rand() < 0.5 else 'capsule',
                     size=[0.06, 0.1, 0.14],
                     pos=list(map(float, rng.uniform(-0.15, 0.15, 3))),
                     quat=list(map(float, generic_quat(rng))))
    if l['geom']['type'] == 'capsule':
      l['geom']['size'] = [0.06, 0.12]
  pas = []
  for j in range(nj):
    d = dict(damping=0.0, armature=0.0, stiffness=0.0)
    if passive in (1, 3):
      d['damping'] = float(rng.uniform(0.2, 1.5))
      d['armature'] = float(rng.uniform(0.05, 0.3))
    if passive in (2, 3):
      d['stiffness'] = float(rng.uniform(1.0, 8.0))
    pas.append(d)
  l['passive'] = pas
  l['range'] = [None] * nj
  if limits:
    for j in range(nj):
      if limits == 2 or j == 0:
        lo = float(rng.uniform(-2.6, -2.2))
        hi = float(rng.uniform(2.2, 2.6))
        l['range'][j] = [lo, hi]
  return l


def _fmt(v):
  return ' '.join(repr(float(x)) for x in v)


def to_xml(spec):
  """Renders the spec as MJCF text (radians; exact matrix inverse custom)."""
  links = spec['links']
  children = {i: [] for i in range(-1, len(links))}
  for i, l in enumerate(links):
    children[l['parent']].append(i)
  opt = spec.get('option', {})
  o = ['<mujoco model="gen">', '<compiler angle="radian"/>']
  attrs = ' '.join('%s="%s"' % (k, v if isinstance(v, str) else
                                (_fmt(v) if isinstance(v, (list, tuple)) else
                                 repr(v)))
                   for k, v in opt.items())
  flags = spec.get('flags', '')
  o.append('<option %s>%s</option>' % (attrs, flags))
  cust = dict(matrix_inv_iterations=0)
  cust.update(spec.get('custom', {}))
  o.append('<custom>' + ''.join(
      '<numeric name="%s" data="%s"/>' % (k, _fmt(v) if isinstance(
          v, (list, tuple)) else repr(v)) for k, v in cust.items()) +
           '</custom>')
  o.append('<worldbody>')
  for g in spec.get('world_geoms', []):
    o.append(_geom_xml(g, 'wg%d' % len(o)))

  def body(i, ind):
    l = links[i]
    a = ['name="b%d"' % i]
    if l.get('pos') is not None:
      a.append('pos="%s"' % _fmt(l['pos']))
    if l.get('quat') is not None:
      a.append('quat="%s"' % _fmt(l['quat']))
    o.append('%s<body %s>' % (ind, ' '.join(a)))
    if l['kind'] == 'F' and l.get('free_damping'):
      o.append('%s <joint name="j%d_0" type="free" damping="%r"/>' % (
          ind, i, l['free_damping']))
    elif l['kind'] == 'F':
      o.append('%s <freejoint name="j%d_0"/>' % (ind, i))
    else:
      for j, c in enumerate(l['kind']):
        ja = ['name="j%d_%d"' % (i, j),
              'type="%s"' % ('hinge' if c == 'H' else 'slide'),
              'axis="%s"' % _fmt(l['axes'][j])]
        if l.get('anchor') is not None:
          ja.append('pos="%s"' % _fmt(l['anchor']))
        p = l['passive'][j] if l.get('passive') else {}
        for k in ('damping', 'armature', 'stiffness'):
          if p.get(k):
            ja.append('%s="%r"' % (k, p[k]))
        if l.get('range') and l['range'][j] is not None:
          ja.append('limited="true" range="%s"' % _fmt(l['range'][j]))
        for k, v in (l.get('joint_extra') or {}).get(str(j), {}).items():
          ja.append('%s="%s"' % (k, v))
        o.append('%s <joint %s/>' % (ind, ' '.join(ja)))
    glist = l['geoms'] if 'geoms' in l else [l['geom']]
    for gi, g in enumerate(glist):
      o.append(ind + ' ' + _geom_xml(g, 'g%d_%d' % (i, gi)))
    for extra in l.get('extra_xml', []):
      o.append(ind + ' ' + extra)
    for c in children[i]:
      body(c, ind + ' ')
    o.append('%s</body>' % ind)

  for r in children[-1]:
    body(r, ' ')
  o.append('</worldbody>')
  acts = spec.get('actuators', [])
  if acts:
    o.append('<actuator>')
    for k, a in enumerate(acts):
      at = ['name="a%d"' % k, 'joint="j%d_%d"' % tuple(a['joint'])]
      for key in ('gear', 'kp', 'kv'):
        if key in a:
          at.append('%s="%r"' % (key, a[key]))
      if a.get('ctrlrange') is not None:
        at.append('ctrllimited="%s" ctrlrange="%s"' % (
            a.get('ctrllimited', 'true'), _fmt(a['ctrlrange'])))
      if a.get('forcerange') is not None:
        at.append('forcelimited="true" forcerange="%s"' %
                  _fmt(a['forcerange']))
      for key, v in a.get('extra', {}).items():
        at.append('%s="%s"' % (key, v))
      o.append(' <%s %s/>' % (a['kind'], ' '.join(at)))
    o.append('</actuator>')
  for extra in spec.get('extra_sections', []):
    o.append(extra)
  o.append('</mujoco>')
  return '\n'.join(o)


def _geom_xml(g, name):
  a = ['name="%s"' % g.get('name', name), 'type="%s"' % g['type']]
  if g.get('size') is not None:
    a.append('size="%s"' % _fmt(g['size']))
  if g.get('pos') is not None:
    a.append('pos="%s"' % _fmt(g['pos']))
  if g.get('quat') is not None:
    a.append('quat="%s"' % _fmt(g['quat']))
  if g.get('fromto') is not None:
    a.append('fromto="%s"' % _fmt(g['fromto']))
  if 'contype' in g:
    a.append('contype="%d" conaffinity="%d"' % (g['contype'], g['conaffinity']))
  elif not g.get('collide'):
    a.append('contype="0" conaffinity="0"')
  if g.get('density') is not None:
    a.append('density="%r"' % g['density'])
  for k, v in g.get('extra', {}).items():
    a.append('%s="%s"' % (k, v))
  return '<geom %s/>' % ' '.join(a)


def load(spec):
  """(sys, mj): the brax system through the real loader, and the MuJoCo model
  compiled from the same fused XML."""
  from brax.io import mjcf
  xml = to_xml(spec)
  sys = mjcf.loads(xml)
  return sys, sys.mj_model


def skeleton(spec):
  return (tuple(l['parent'] for l in spec['links']),
          ''.join('f' if l['kind'] == 'F' else str(len(l['kind']))
                  for l in spec['links']),
          len(spec.get('actuators', [])),
          any(r is not None for l in spec['links'] for r in l.get('range', [])))


def nq_nv(spec):
  nq = sum(7 if l['kind'] == 'F' else len(l['kind']) for l in spec['links'])
  nv = sum(6 if l['kind'] == 'F' else len(l['kind']) for l in spec['links'])
  return nq, nv


# ----------------------------------------------------------------- inputs


def hinge_angles(k, rng, lo=-2.0, hi=2.0):
  """k distinct angles in [lo,hi] containing 0 and seeded generic ones."""
  out = [0.0]
  while len(out) < k:
    a = float(rng.uniform(lo, hi))
    if all(abs(a - b) > 0.25 for b in out) and abs(abs(a) - pymath.pi / 2) > 0.1:
      out.append(a)
  return out


def slide_values(k, rng, lo=-1.0, hi=1.0):
  out = [0.0]
  while len(out) < k:
    a = float(rng.uniform(lo, hi))
    if all(abs(a - b) > 0.15 for b in out):
      out.append(a)
  return out


def coord_grid(spec, rng, hk=3, sk=2, root_quats=None, cap=2048, lo=-2.0,
               hi=2.0):
  """Tensor grid of q: per-coordinate alphabets; free roots take poses from
  root_quats (list of unit quaternions) x {0, generic translation}."""
  per = []
  for l in spec['links']:
    if l['kind'] == 'F':
      quats = root_quats or [np.array([1.0, 0, 0, 0]), generic_quat(rng)]
      trans = [np.zeros(3), rng.uniform(-1, 1, 3)]
      poses = [np.concatenate([t, q]) for q in quats for t in trans[:1]]
      poses.append(np.concatenate([trans[1], quats[-1]]))
      per.append([tuple(p) for p in poses])
    else:
      for c in l['kind']:
        vals = hinge_angles(hk, rng, lo, hi) if c == 'H' else slide_values(
            sk, rng, max(lo, -1.0), min(hi, 1.0))
        per.append([(v,) for v in vals])
  total = 1
  for p in per:
    total *= len(p)
  capped = total > cap
  if not capped:
    combos = itertools.product(*per)
  else:
    # deterministic sub-lattice: all "one coordinate off zero" points plus a
    # seeded selection of full combinations
    base = [p[0] for p in per]
    sel = [tuple(base)]
    for i, p in enumerate(per):
      for v in p[1:]:
        b = list(base)
        b[i] = v
        sel.append(tuple(b))
    while len(sel) < cap:
      sel.append(tuple(p[rng.randint(len(p))] for p in per))
    combos = sel
  qs = np.array([np.concatenate([np.asarray(c) for c in combo])
                 for combo in combos])
  return qs, capped


def qd_basis(nv):
  return np.concatenate([np.zeros((1, nv)), np.eye(nv)])


def qd_quadratic(nv):
  pts = [np.zeros(nv)]
  for i in range(nv):
    e = np.zeros(nv); e[i] = 1
    pts += [e, 2 * e]
  for i in range(nv):
    for j in range(i):
      e = np.zeros(nv); e[i] = 1; e[j] = 1
      pts.append(e)
  return np.array(pts)
