"""MuJoCo reference oracle (mujoco 3.13 python bindings)."""

import mujoco
import numpy as np


class Ref:

  def __init__(self, mj, disable_contact=True):
    self.m = mj
    self.d = mujoco.MjData(mj)
    self.saved_flags = mj.opt.disableflags
    self.disable_contact = disable_contact

  def _flags(self):
    if self.disable_contact:
      self.m.opt.disableflags |= int(mujoco.mjtDisableBit.mjDSBL_CONTACT)

  def _restore(self):
    self.m.opt.disableflags = self.saved_flags

  def set(self, q, qd=None, ctrl=None):
    d = self.d
    mujoco.mj_resetData(self.m, d)
    d.qpos[:] = q
    if qd is not None:
      d.qvel[:] = qd
    if ctrl is not None and self.m.nu:
      d.ctrl[:] = ctrl

  def forward(self, q, qd=None, ctrl=None):
    self.set(q, qd, ctrl)
    self._flags()
    try:
      mujoco.mj_forward(self.m, self.d)
    finally:
      self._restore()
    return self.d

  def kin(self, q, qd=None):
    """xpos [nb,3], xmat [nb,3,3], world velocities (ang, lin) at body origin
    for bodies 1..nbody-1."""
    d = self.forward(q, qd)
    nb = self.m.nbody
    pos = d.xpos[1:].copy()
    mat = d.xmat[1:].reshape(-1, 3, 3).copy()
    ang = np.zeros((nb - 1, 3))
    lin = np.zeros((nb - 1, 3))
    buf = np.zeros(6)
    for i in range(1, nb):
      mujoco.mj_objectVelocity(self.m, d, mujoco.mjtObj.mjOBJ_XBODY, i, buf, 0)
      ang[i - 1] = buf[:3]
      lin[i - 1] = buf[3:]
    return pos, mat, ang, lin

  def dynamics(self, q, qd, ctrl=None):
    d = self.forward(q, qd, ctrl)
    nv = self.m.nv
    M = np.zeros((nv, nv))
    try:
      mujoco.mj_fullM(self.m, d, M)
    except TypeError:
      mujoco.mj_fullM(self.m, M, d.qM)
    return dict(M=M, bias=d.qfrc_bias.copy(), passive=d.qfrc_passive.copy(),
                actuator=d.qfrc_actuator.copy(), smooth=d.qfrc_smooth.copy())

  def step(self, q, qd, ctrl=None, n=1):
    self.set(q, qd, ctrl)
    self._flags()
    try:
      for _ in range(n):
        mujoco.mj_step(self.m, self.d)
    finally:
      self._restore()
    self.last_warnings = int(sum(w.number for w in self.d.warning))
    return self.d.qpos.copy(), self.d.qvel.copy()


def quat_to_mat(q):
  q = np.asarray(q, float)
  q = q / np.linalg.norm(q)
  w, x, y, z = q
  return np.array([
      [1 - 2 * (y * y + z * z), 2 * (x * y - w * z), 2 * (x * z + w * y)],
      [2 * (x * y + w * z), 1 - 2 * (x * x + z * z), 2 * (y * z - w * x)],
      [2 * (x * z - w * y), 2 * (y * z + w * x), 1 - 2 * (x * x + y * y)]])
