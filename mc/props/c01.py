"""C01 forward kinematics vs MuJoCo over the small-scope model alphabet."""

import numpy as np

from mc import mjref, phys, scope

LEVEL = 'exploration'
X64 = True
TOL = 1e-9
RULE = ('models: full product K x A x P x B x G for one link; shapes(2) x '
        'reduced 24(+F) template alphabet; every shape x every link-type '
        'string for 3 links (4 in thorough, chain/star for 5,6) with seeded '
        'H/S words; every 4-link shape and every forest of stars up to 6 links '
        'with single-joint links (all 5/6-link shapes in thorough); '
        'H/S words and templates. inputs: tensor grid of 3 angles per hinge, '
        '2 values per slide, root poses {identity, generic} (+24 cube rotations '
        'on single free bodies), qd in {0, e_i}. oracle: mujoco xpos/xmat and '
        'mj_objectVelocity of the model compiled from the same fused XML. '
        'non-trivial = model has a rotated body or non-aligned axis or stack '
        'and q != 0; distinct = distinct (model, q, qd) triples')
ASSUMPTIONS = [
    'MuJoCo 3.13 forward kinematics is the reference',
    'FK is multi-affine in (cos q_i, sin q_i) per hinge and affine per slide: '
    '3 angles x 2 slide values per coordinate form a unisolvent tensor grid; '
    'velocity is linear in qd ({0,e_i} decides it)',
    'grids above the cap use the stated sub-lattice (reported per run)',
]


def _models(tier, seed):
  specs = phys.n1_full(seed)
  specs += phys.n2_reduced(seed, nvar=3 if tier == 'quick' else 4)
  specs += phys.nk_skeletons(3, seed, assignments=2 if tier == 'quick' else 6)
  # level-grouping patterns of scan.tree: every 4-link shape and every forest
  # of stars up to 6 links (all 5- and 6-link shapes in thorough)
  lv = scope.shapes(4) + phys.star_forests(6)
  if tier != 'quick':
    lv += scope.shapes(5) + scope.shapes(6)
  specs += phys.level_pattern_models(seed, sorted(set(lv)))
  if tier != 'quick':
    specs += phys.nk_skeletons(4, seed, assignments=1)
    for n in (5, 6):
      chain = tuple(range(-1, n - 1))
      star = (-1,) + (0,) * (n - 1)
      two = (-1, 0, 0) + (-1,) + tuple(range(3, n - 1))
      for sh in (chain, star, two):
        for a in range(6):
          rng = scope.rng_for(seed, 'big', sh, a)
          links = []
          for i, p in enumerate(sh):
            kind = 'F' if (p == -1 and rng.rand() < 0.4) else ''.join(
                rng.choice(['H', 'S'], size=int(rng.randint(1, 3))))
            links.append(phys.tmpl(kind, p, rng, int(rng.randint(4))))
          specs.append(phys.spec_of(links))
  return specs


def tasks(tier, seed):
  specs = _models(tier, seed)
  ts = []
  for k, group in phys.group_by_skeleton(specs, per_task=40):
    ts.append(dict(name='skel %s n=%d' % (k[:2], len(group)), specs=group,
                   cost=30 + len(group)))
  return ts


def _nontrivial(spec):
  for l in spec['links']:
    if l.get('quat') is not None or len(l['kind']) > 1 or any(
        sorted(np.abs(a).tolist()) != [0, 0, 1] for a in l['axes']):
      return True
  return False


_FWD = {}


def _fwd():
  import jax
  from brax import kinematics, math
  if 'f' not in _FWD:
    def f(sys, q, qd):
      x, xd = kinematics.forward(sys, q, qd)
      return x.pos, jax.vmap(math.quat_to_3x3)(x.rot), xd.ang, xd.vel, x.rot
    _FWD['f'] = jax.jit(jax.vmap(f, in_axes=(None, 0, 0)))
  return _chunked(_FWD['f'])


CH = 512


def _chunked(f):
  """Fixed batch size (one executable per skeleton): pad the last chunk."""
  def g(sys, qs, qds):
    outs = []
    n = len(qs)
    for s in range(0, n, CH):
      a, b = np.asarray(qs[s:s + CH]), np.asarray(qds[s:s + CH])
      m = len(a)
      if m < CH:
        a = np.concatenate([a, np.repeat(a[-1:], CH - m, 0)])
        b = np.concatenate([b, np.repeat(b[-1:], CH - m, 0)])
      o = f(sys, a, b)
      outs.append([np.asarray(x)[:m] for x in o])
    return [np.concatenate([o[i] for o in outs]) for i in range(len(outs[0]))]
  return g


def check_model(spec, seed, res, cap=729, vel_cap=128):
  import jax.numpy as jp
  sys, mj = scope.load(spec)
  ref = mjref.Ref(mj)
  rng = scope.rng_for(seed, 'c01grid', str(scope.skeleton(spec)))
  root_quats = None
  if len(spec['links']) == 1 and spec['links'][0]['kind'] == 'F':
    root_quats = scope.cube_rotations() + [scope.generic_quat(rng)]
  qs, capped = scope.coord_grid(spec, rng, hk=3, sk=2, root_quats=root_quats,
                                cap=cap)
  nq, nv = scope.nq_nv(spec)
  assert qs.shape[1] == nq == sys.q_size(), (qs.shape, nq, sys.q_size())
  fwd = _fwd()
  s = phys.strip(sys)
  nt = _nontrivial(spec)
  # positions (qd = 0)
  pos, mat, _, _, rot = [np.asarray(a) for a in fwd(s, jp.asarray(qs),
                                                     jp.zeros((len(qs), nv)))]
  claimed = phys.link_classes(spec)
  for i, q in enumerate(qs):
    rp, rm, _, _ = ref.kin(q)
    res['evaluations'] += 1
    if nt and np.any(q[:] != 0):
      res['nontrivial'] += 1
    e = max(np.abs(pos[i] - rp).max(), np.abs(mat[i] - rm).max())
    nerr = np.abs(np.linalg.norm(rot[i], axis=-1) - 1).max()
    if not (e <= TOL and nerr <= TOL):
      l = int(np.argmax(np.maximum(np.abs(pos[i] - rp).max(1),
                                   np.abs(mat[i] - rm).reshape(len(rp), -1
                                                               ).max(1))))
      res['violations'].append(dict(
          key='C01:pose', what='link %d pose differs from MuJoCo by %.3g '
          '(quat norm err %.2g) kinds=%s q=%s' % (l, e, nerr, [
              x['kind'] for x in spec['links']], np.round(q, 4).tolist()),
          case=dict(spec=spec, q=q.tolist(), qd=[0.0] * nv)))
      return
  # velocities: qd basis at a sub-grid of q
  sub = qs[:vel_cap] if len(qs) > vel_cap else qs
  basis = scope.qd_basis(nv)[1:]
  QQ = np.repeat(sub, len(basis), axis=0)
  DD = np.tile(basis, (len(sub), 1))
  _, _, ang, vel, _ = [np.asarray(a) for a in fwd(s, jp.asarray(QQ),
                                                   jp.asarray(DD))]
  known_seen = False
  for i in range(len(QQ)):
    _, _, ra, rl = ref.kin(QQ[i], DD[i])
    res['evaluations'] += 1
    if nt:
      res['nontrivial'] += 1
    err = np.maximum(np.abs(ang[i] - ra).max(1), np.abs(vel[i] - rl).max(1))
    for l in range(len(err)):
      if err[l] <= TOL:
        continue
      if claimed[l]:
        res['violations'].append(dict(
            key='C01:velocity', what='link %d (claimed class) velocity differs'
            ' from MuJoCo by %.3g kinds=%s q=%s qd=%s' % (
                l, err[l], [x['kind'] for x in spec['links']],
                np.round(QQ[i], 4).tolist(), DD[i].tolist()),
            case=dict(spec=spec, q=QQ[i].tolist(), qd=DD[i].tolist())))
        return
      elif not known_seen:
        known_seen = True
        res['violations'].append(dict(
            key='C01:xd:link-has-or-descends-from-stack>1-or-offset-anchor',
            what='link %d velocity differs by %.3g (upstream TODO)' %
            (l, err[l]), case=dict(spec=spec, q=QQ[i].tolist(),
                                   qd=DD[i].tolist())))
  if capped:
    res['extra']['grid_capped_models'] = res['extra'].get(
        'grid_capped_models', 0) + 1


def run_task(task):
  res = dict(evaluations=0, nontrivial=0, violations=[], samples=[],
             outcomes=[], extra={})
  tier = task['tier']
  for spec in task['specs']:
    nv0 = len(res['violations'])
    check_model(spec, task['seed'], res, cap=729 if tier == 'quick' else 2048,
                vel_cap=64 if tier == 'quick' else 256)
    res['extra']['models'] = res['extra'].get('models', 0) + 1
  res['samples'].append(phys.describe(task['specs'][len(task['specs']) // 2]))
  res['outcomes'] = [str(scope.skeleton(task['specs'][0])[:2])]
  res['extra']['skeleton_tasks'] = 1
  return res


def replay(rec):
  import jax.numpy as jp
  c = rec['case']
  spec = c['spec']
  sys, mj = scope.load(spec)
  ref = mjref.Ref(mj)
  q, qd = np.array(c['q']), np.array(c['qd'])
  from brax import kinematics, math
  x, xd = kinematics.forward(sys, jp.asarray(q), jp.asarray(qd))
  rp, rm, ra, rl = ref.kin(q, qd)
  import jax
  mat = np.asarray(jax.vmap(math.quat_to_3x3)(x.rot))
  e_pose = max(np.abs(np.asarray(x.pos) - rp).max(), np.abs(mat - rm).max())
  ev = np.maximum(np.abs(np.asarray(xd.ang) - ra).max(1),
                  np.abs(np.asarray(xd.vel) - rl).max(1))
  claimed = phys.link_classes(spec)
  bad = e_pose > TOL or any(ev[l] > TOL and claimed[l]
                            for l in range(len(ev)))
  if rec['key'].startswith('C01:xd:'):
    bad = bad or any(ev > TOL)
  text = ('xml:\n%s\nq=%s qd=%s\npose error %.3g; per-link velocity error %s; '
          'claimed class %s\nbrax xd.vel=%s\nmujoco lin=%s' %
          (scope.to_xml(spec), q.tolist(), qd.tolist(), e_pose, ev.tolist(),
           claimed, np.asarray(xd.vel).tolist(), rl.tolist()))
  return (not bad), text
