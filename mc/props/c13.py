"""C13 fusing jointless bodies: exhaustive insertion of jointless bodies into
base documents; MuJoCo forward kinematics of the original document vs of
mjcf.fuse_bodies(document), matched by element name."""

import itertools

import mujoco
import numpy as np

LEVEL = 'exploration'
X64 = True
INPROCESS = False
RULE = ('6 base documents x every host (world and each jointed body) x '
        'jointless chains of depth 1 (all 15 non-empty content subsets of '
        '{geom pos/quat, geom fromto, site, jointed child subtree} plus 4 subsets '
        'with attribute-less (default-pose) elements x 8 pose '
        'modes: neither / pos / quat{generic, single-axis, un-normalised} / '
        'both{...}), depth 2 (8x8 modes), depth 3 (mode sub-alphabet; full in '
        'thorough), sibling pairs, and wrapping of existing children. Oracle: '
        'MuJoCo compile + forward kinematics of original vs fused document at '
        'qpos0 and a generic qpos: world pose of every geom/site/jointed body, '
        'joint anchors and axes, from-to end points, composite mass/COM/'
        'inertia of each moving body with its welded descendants. non-trivial '
        '= some jointless body has pos or quat; distinct = distinct documents')
ASSUMPTIONS = [
    'MuJoCo compiler and forward kinematics are the reference',
    'tolerance 1e-5 per nesting level: the loader prints %f (six decimals of '
    'pos and quat; rotation rounding acts through lever arms)',
    'from-to geoms are compared by end points and axis only (MuJoCo chooses '
    'the roll about the axis freely)',
]
TOL = 1e-5   # per nesting level: six printed decimals on pos and quat, lever arms < 2 m


def _f(v):
  return ' '.join('%.9g' % x for x in v)


def _modes(seed):
  rng = np.random.RandomState(40 + seed)

  def gq():
    while True:
      q = rng.normal(size=4)
      q /= np.linalg.norm(q)
      if np.min(np.abs(q)) > 0.15:
        return q
  g = gq()
  a = rng.uniform(0.5, 2.5)
  single = np.array([np.cos(a / 2), 0, 0, np.sin(a / 2)])
  p = rng.uniform(-0.5, 0.5, 3)
  p2 = rng.uniform(-0.5, 0.5, 3)
  g2 = gq()
  sx = np.array([np.cos(0.4), np.sin(0.4), 0, 0])
  return [
      ('none', None, None), ('pos', p, None), ('quat-generic', None, g),
      ('quat-single-axis', None, single), ('quat-unnormalised', None, 2 * g2),
      ('both-generic', p2, g2), ('both-single-axis', p, sx),
      ('both-unnormalised', p2, 2 * g)]


class Doc:
  """Tiny XML builder with unique names."""

  def __init__(self):
    self.n = 0

  def name(self, p):
    self.n += 1
    return '%s%d' % (p, self.n)

  def geom(self, rng, kind='pq'):
    if kind == 'ft':
      a, b = rng.uniform(-0.3, 0.3, 3), rng.uniform(-0.3, 0.3, 3)
      return ('<geom name="%s" type="capsule" size="0.04" fromto="%s %s"/>' %
              (self.name('ft_'), _f(a), _f(b)))
    q = rng.normal(size=4)
    q /= np.linalg.norm(q)
    return ('<geom name="%s" type="box" size="0.05 0.08 0.11" pos="%s" '
            'quat="%s"/>' % (self.name('g_'), _f(rng.uniform(-0.3, 0.3, 3)),
                             _f(q)))

  def site(self, rng):
    q = rng.normal(size=4)
    q /= np.linalg.norm(q)
    return '<site name="%s" pos="%s" quat="%s"/>' % (
        self.name('s_'), _f(rng.uniform(-0.3, 0.3, 3)), _f(q))

  def jointed(self, rng, inner=''):
    q = rng.normal(size=4)
    q /= np.linalg.norm(q)
    ax = rng.normal(size=3)
    ax /= np.linalg.norm(ax)
    typ = 'hinge' if rng.rand() < 0.6 else 'slide'
    return ('<body name="%s" pos="%s" quat="%s"><joint name="%s" type="%s" '
            'axis="%s" pos="%s"/><geom name="%s" type="sphere" size="0.07" '
            'pos="0.1 0 0.05"/>%s</body>' % (
                self.name('jb_'), _f(rng.uniform(-0.3, 0.3, 3)), _f(q),
                self.name('j_'), typ, _f(ax), _f(rng.uniform(-0.1, 0.1, 3)),
                self.name('g_'), inner))


def _jointless(doc, mode, inner):
  a = 'name="%s"' % doc.name('fuse_')
  if mode[1] is not None:
    a += ' pos="%s"' % _f(mode[1])
  if mode[2] is not None:
    a += ' quat="%s"' % _f(mode[2])
  return '<body %s>%s</body>' % (a, inner)


def _contents(doc, rng, subset):
  out = ''
  if 'G' in subset:
    out += doc.geom(rng, 'pq')
  if 'T' in subset:
    out += doc.geom(rng, 'ft')
  if 'S' in subset:
    out += doc.site(rng)
  if 'C' in subset:
    out += doc.jointed(rng, inner=doc.jointed(rng))
  if 'B' in subset:
    # "bare" elements that rely on the body-origin defaults (no pos, quat or
    # fromto attribute)
    out += '<geom name="%s" type="box" size="0.05 0.07 0.09"/>' % doc.name('g_')
    out += '<site name="%s"/>' % doc.name('s_')
    out += ('<body name="%s"><joint name="%s" type="hinge" axis="0 1 0"/>'
            '<geom name="%s" type="sphere" size="0.06"/></body>' % (
                doc.name('jb_'), doc.name('j_'), doc.name('g_')))
  return out


def base_docs():
  """Base documents as (name, template with {hostN} slots, hosts,
  wrappable children).  Slots are filled with inserted XML."""
  B = []
  B.append(('hinge-body', '''<mujoco><compiler angle="radian"/><worldbody>{w}
<body name="A" pos="0.1 0.2 0.3"><joint name="jA" type="hinge" axis="0 1 0"/>
<geom name="gA" type="sphere" size="0.1"/><site name="sA" pos="0.1 0 0"/>{A}
</body></worldbody></mujoco>''', ['w', 'A']))
  B.append(('slide-hinge-chain', '''<mujoco><compiler angle="radian"/>
<worldbody>{w}<body name="A" pos="0.2 0 0.5" quat="0.8 0.2 -0.4 0.4">
<joint name="jA" type="slide" axis="0.6 0 0.8"/>
<geom name="ft_A" type="capsule" size="0.05" fromto="0 0 0 0.2 0.1 -0.3"/>{A}
<body name="B" pos="0.2 0.1 -0.3"><joint name="jB" type="hinge" axis="1 0 0"
 pos="0 0.05 0"/><geom name="gB" type="box" size="0.05 0.06 0.07"
 pos="0.1 0 0" quat="0.5 0.5 -0.5 0.5"/><site name="sB" pos="0 0.1 0"/>{B}
</body></body></worldbody></mujoco>''', ['w', 'A', 'B']))
  B.append(('free-root', '''<mujoco><compiler angle="radian"/><worldbody>{w}
<body name="A" pos="0 0 1" quat="0.6 -0.4 0.2 0.663325"><freejoint name="jA"/>
<geom name="gA" type="box" size="0.1 0.15 0.2"/>{A}
<body name="B" pos="0.3 0 0"><joint name="jB1" type="hinge" axis="0 0 1"/>
<joint name="jB2" type="slide" axis="1 0 0"/>
<geom name="gB" type="capsule" size="0.04 0.1" pos="0.1 0 0"
 quat="0.7071067811865476 0 0.7071067811865476 0"/>{B}</body></body>
</worldbody></mujoco>''', ['w', 'A', 'B']))
  B.append(('two-roots', '''<mujoco><compiler angle="radian"/><worldbody>{w}
<body name="A" pos="-0.3 0 0.2"><joint name="jA" type="hinge" axis="0 0 1"/>
<geom name="gA" type="sphere" size="0.08" pos="0.1 0 0"/>{A}</body>
<body name="C" pos="0.4 0.1 0.2" quat="0.5 0.5 0.5 0.5">
<joint name="jC" type="slide" axis="0 1 0"/>
<geom name="ft_C" type="capsule" size="0.03" fromto="-0.1 0 0 0.1 0.05 0.2"/>
{C}</body></worldbody></mujoco>''', ['w', 'A', 'C']))
  return B


def compare(xml, levels=1):
  """Returns list of (key, what); empty when fusing moved nothing."""
  from brax.io import mjcf
  m0 = mujoco.MjModel.from_xml_string(xml)
  try:
    fused = mjcf.fuse_bodies(xml)
    m1 = mujoco.MjModel.from_xml_string(fused)
  except Exception as e:  # pylint: disable=broad-except
    return [('fuse-raises', 'fuse_bodies or compile of its output raised %r' %
             (e,))]
  tol = TOL * (1 + levels)
  probs = []
  names = lambda m, t, n: [mujoco.mj_id2name(m, t, i) for i in range(n)]
  J0 = names(m0, mujoco.mjtObj.mjOBJ_JOINT, m0.njnt)
  J1 = names(m1, mujoco.mjtObj.mjOBJ_JOINT, m1.njnt)
  if sorted(J0) != sorted(J1):
    return [('structure', 'joint sets differ: %s vs %s' % (J0, J1))]
  rng = np.random.RandomState(3)
  vals = {}
  for i, n in enumerate(J0):
    t = m0.jnt_type[i]
    if t == 0:
      q = rng.normal(size=4)
      vals[n] = np.concatenate([rng.uniform(-0.5, 0.5, 3),
                                q / np.linalg.norm(q)])
    else:
      vals[n] = np.array([rng.uniform(-1, 1)])
  for pose in ('qpos0', 'generic'):
    d0, d1 = mujoco.MjData(m0), mujoco.MjData(m1)
    if pose == 'generic':
      for m, d, J in ((m0, d0, J0), (m1, d1, J1)):
        for i, n in enumerate(J):
          a = m.jnt_qposadr[i]
          d.qpos[a:a + len(vals[n])] = vals[n]
    mujoco.mj_forward(m0, d0)
    mujoco.mj_forward(m1, d1)
    # geoms
    G0 = names(m0, mujoco.mjtObj.mjOBJ_GEOM, m0.ngeom)
    G1 = names(m1, mujoco.mjtObj.mjOBJ_GEOM, m1.ngeom)
    if sorted(G0) != sorted(G1):
      return [('structure', 'geom sets differ')]
    for i, n in enumerate(G0):
      k = G1.index(n)
      e = np.abs(d0.geom_xpos[i] - d1.geom_xpos[k]).max()
      if n.startswith('ft_'):
        a0 = d0.geom_xmat[i].reshape(3, 3)[:, 2]
        a1 = d1.geom_xmat[k].reshape(3, 3)[:, 2]
        h0, h1 = m0.geom_size[i, 1], m1.geom_size[k, 1]
        ends0 = np.sort(np.stack([d0.geom_xpos[i] + h0 * a0,
                                  d0.geom_xpos[i] - h0 * a0]), axis=0)
        ends1 = np.sort(np.stack([d1.geom_xpos[k] + h1 * a1,
                                  d1.geom_xpos[k] - h1 * a1]), axis=0)
        e = max(e, np.abs(ends0 - ends1).max(),
                min(np.abs(a0 - a1).max(), np.abs(a0 + a1).max()))
        if not e <= tol:
          probs.append(('fromto-geom', '%s: from-to geom %s end points/axis '
                        'moved by %.3g' % (pose, n, e)))
      else:
        e = max(e, np.abs(d0.geom_xmat[i] - d1.geom_xmat[k]).max())
        if not e <= tol:
          probs.append(('geom', '%s: geom %s moved by %.3g' % (pose, n, e)))
    S0 = names(m0, mujoco.mjtObj.mjOBJ_SITE, m0.nsite)
    S1 = names(m1, mujoco.mjtObj.mjOBJ_SITE, m1.nsite)
    if sorted(S0) != sorted(S1):
      return [('structure', 'site sets differ')]
    for i, n in enumerate(S0):
      k = S1.index(n)
      e = max(np.abs(d0.site_xpos[i] - d1.site_xpos[k]).max(),
              np.abs(d0.site_xmat[i] - d1.site_xmat[k]).max())
      if not e <= tol:
        probs.append(('site', '%s: site %s moved by %.3g' % (pose, n, e)))
    for i, n in enumerate(J0):
      k = J1.index(n)
      e = max(np.abs(d0.xanchor[i] - d1.xanchor[k]).max(),
              np.abs(d0.xaxis[i] - d1.xaxis[k]).max())
      if not e <= tol:
        probs.append(('joint', '%s: joint %s anchor/axis moved by %.3g' %
                      (pose, n, e)))
    # jointed bodies and composite inertias
    B0 = names(m0, mujoco.mjtObj.mjOBJ_BODY, m0.nbody)
    B1 = names(m1, mujoco.mjtObj.mjOBJ_BODY, m1.nbody)

    def welded(m, b):
      out = [b]
      for c in range(m.nbody):
        if c != b and m.body_parentid[c] in out and m.body_jntnum[c] == 0:
          out.append(c)
      return out

    def composite(m, d, bs):
      M = 0.0
      C = np.zeros(3)
      I = np.zeros((3, 3))
      for b in bs:
        mass = m.body_mass[b]
        c = d.xipos[b]
        R = d.ximat[b].reshape(3, 3)
        M += mass
        C += mass * c
        I += R @ np.diag(m.body_inertia[b]) @ R.T + mass * (
            np.dot(c, c) * np.eye(3) - np.outer(c, c))
      return M, C, I
    for b in range(1, m0.nbody):
      if m0.body_jntnum[b] == 0:
        continue
      n = B0[b]
      if n not in B1:
        probs.append(('structure', 'jointed body %s vanished' % n))
        continue
      k = B1.index(n)
      e = max(np.abs(d0.xpos[b] - d1.xpos[k]).max(),
              np.abs(d0.xmat[b] - d1.xmat[k]).max())
      if not e <= tol:
        probs.append(('body', '%s: jointed body %s moved by %.3g' %
                      (pose, n, e)))
      M0, C0, I0 = composite(m0, d0, welded(m0, b))
      M1, C1, I1 = composite(m1, d1, welded(m1, k))
      e = max(abs(M0 - M1) / M0, np.abs(C0 - C1).max() / M0,
              np.abs(I0 - I1).max() / (np.abs(I0).max() + 1e-12))
      if not e <= 20 * tol:
        probs.append(('inertia', '%s: mass/COM/inertia of body %s with its '
                      'welded descendants changed by %.3g (relative)' %
                      (pose, n, e)))
    if probs:
      break
  # the fused document must not contain jointless bodies any more
  for b in range(1, m1.nbody):
    if m1.body_jntnum[b] == 0:
      probs.append(('not-fused', 'fused document still has a jointless body'))
      break
  return probs


def _prenormalise(xml):
  """Normalises the quat attribute of every jointless body of the document."""
  from xml.etree import ElementTree
  root = ElementTree.fromstring(xml)
  for b in root.iter('body'):
    if b.find('joint') is None and b.find('freejoint') is None and \
        'quat' in b.attrib:
      q = np.array([float(x) for x in b.attrib['quat'].split()])
      b.attrib['quat'] = _f(q / np.linalg.norm(q))
  return ElementTree.tostring(root, encoding='unicode')


def documents(tier, seed):
  """Yields (descriptor, xml, levels, nontrivial)."""
  modes = _modes(seed)
  sub4 = [modes[0], modes[1], modes[3], modes[5]]
  subsets = [''.join(s) for n in range(1, 5)
             for s in itertools.combinations('GTSC', n)] + ['B', 'GB', 'TSB',
                                                            'GTSCB']
  for bname, tmpl, hosts in base_docs():
    blank = {h: '' for h in hosts}
    # depth 1
    for host in hosts:
      for sub in subsets:
        for mode in modes:
          doc = Doc()
          rng = np.random.RandomState(1000 + seed)
          ins = _jointless(doc, mode, _contents(doc, rng, sub))
          yield (dict(base=bname, host=host, depth=1, contents=sub,
                      modes=[mode[0]]),
                 tmpl.format(**dict(blank, **{host: ins})), 1,
                 mode[0] != 'none')
    # depth 2
    for host in hosts:
      for m1, m2 in itertools.product(modes, modes):
        doc = Doc()
        rng = np.random.RandomState(2000 + seed)
        inner = _jointless(doc, m2, _contents(doc, rng, 'GTSC'))
        ins = _jointless(doc, m1, _contents(doc, rng, 'GS') + inner)
        yield (dict(base=bname, host=host, depth=2, modes=[m1[0], m2[0]]),
               tmpl.format(**dict(blank, **{host: ins})), 2,
               (m1[0], m2[0]) != ('none', 'none'))
    # depth 3
    M3 = modes if tier != 'quick' else sub4
    for host in hosts[:2]:
      for m1, m2, m3 in itertools.product(M3, M3, M3):
        doc = Doc()
        rng = np.random.RandomState(3000 + seed)
        i3 = _jointless(doc, m3, _contents(doc, rng, 'TC'))
        i2 = _jointless(doc, m2, _contents(doc, rng, 'S') + i3)
        ins = _jointless(doc, m1, _contents(doc, rng, 'G') + i2)
        yield (dict(base=bname, host=host, depth=3,
                    modes=[m1[0], m2[0], m3[0]]),
               tmpl.format(**dict(blank, **{host: ins})), 3, True)
    # sibling pairs under one host, and one under every host at once
    for host in hosts:
      for m1, m2 in itertools.product(sub4 if tier == 'quick' else modes,
                                      repeat=2):
        doc = Doc()
        rng = np.random.RandomState(4000 + seed)
        ins = (_jointless(doc, m1, _contents(doc, rng, 'GC')) +
               _jointless(doc, m2, _contents(doc, rng, 'TS')))
        yield (dict(base=bname, host=host, depth=1, siblings=2,
                    modes=[m1[0], m2[0]]),
               tmpl.format(**dict(blank, **{host: ins})), 1, True)
    for mode in modes:
      doc = Doc()
      rng = np.random.RandomState(5000 + seed)
      fill = {h: _jointless(doc, mode, _contents(doc, rng, 'GTS'))
              for h in hosts}
      yield (dict(base=bname, host='all', depth=1, modes=[mode[0]]),
             tmpl.format(**fill), 1, mode[0] != 'none')


def tasks(tier, seed):
  n = sum(1 for _ in documents(tier, seed))
  k = 32
  return [dict(name='docs %d/%d' % (i, k), part=i, parts=k, cost=n / k)
          for i in range(k)]


def run_task(task):
  res = dict(evaluations=0, nontrivial=0, violations=[], samples=[],
             outcomes=set(), extra={})
  for i, (desc, xml, levels, nt) in enumerate(documents(task['tier'],
                                                         task['seed'])):
    if i % task['parts'] != task['part']:
      continue
    probs = compare(xml, levels)
    res['evaluations'] += 1
    res['nontrivial'] += int(nt)
    res['outcomes'].add(desc['base'] + ':' + str(desc.get('host')))
    if i % 997 == task['part']:
      res['samples'].append(dict(desc, xml=xml))
    if probs and any('unnormalised' in m for m in desc['modes']):
      # is the disagreement solely due to the un-normalised quat of a
      # jointless body?  Re-run with those quats pre-normalised by the harness.
      if not compare(_prenormalise(xml), levels):
        res['violations'].append(dict(
            key='C13:jointless-body-quat-not-normalised',
            what=probs[0][1] + ' (vanishes when the jointless body\'s quat is '
            'normalised before fusing)', case=dict(desc=desc, xml=xml,
                                                    levels=levels)))
        continue
    for key, what in probs[:2]:
      sig = 'C13:%s:%s' % (key, '+'.join(sorted(set(
          m.split('-')[0] for m in desc['modes']))))
      res['violations'].append(dict(key=sig, what=what,
                                    case=dict(desc=desc, xml=xml,
                                              levels=levels)))
  res['outcomes'] = list(res['outcomes'])
  res['samples'] = res['samples'][:1]
  return res


def replay(rec):
  c = rec['case']
  probs = compare(c['xml'], c.get('levels', 1))
  if rec.get('key') != 'C13:jointless-body-quat-not-normalised' and probs and \
      not compare(_prenormalise(c['xml']), c.get('levels', 1)):
    probs = []   # only the listed normalisation finding is present here
  from brax.io import mjcf
  return (not probs), 'document:\n%s\nfused:\n%s\n%s' % (
      c['xml'], mjcf.fuse_bodies(c['xml']), '\n'.join(p[1] for p in probs) or
      'nothing moved')
