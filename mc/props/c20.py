"""C20 tanh-normal policy distribution: full grid products vs 100-digit reference."""

import decimal
import itertools

import numpy as np

LEVEL = 'exploration'
X64 = True
RULE = ('distribution: full product loc{-10,-1,0,0.3,10} x raw-scale'
        '{-20,-2,0,2,20} x pre-squash action{-40..40 (9 values)} x min_std,'
        'var_scale in {1e-3,0.5,2}^2 for event size 1; for event sizes 2..6 the '
        'same grid dealt to the dimensions with per-dimension strides (distinct '
        'values per dimension); batch shapes (),(3,),(2,3); keys 0..7. '
        'log_prob is compared with a 100-digit decimal evaluation of normal '
        'log-density minus log(1-tanh^2). PPO policy: obs sizes {1,3} x action '
        'sizes {1,2} x array/dict observations x normaliser statistics != '
        '(0,1) x keys 0..3. non-trivial = |pre-squash action| >= 5 or raw '
        'scale at an extreme or event size > 1; distinct = distinct grid '
        'tuples')
ASSUMPTIONS = [
    'reference: python decimal at 100 digits (independent of jax numerics)',
    'the distribution factorises over action dimensions (sum over dimensions '
    'is checked with distinct per-dimension values)',
    'quadrature of the squashed density is a sanity consequence; the deciding '
    'fact is the pointwise Jacobian identity',
]
D = decimal.Decimal
decimal.getcontext().prec = 100
LOCS = [-10.0, -1.0, 0.0, 0.3, 10.0]
RAWS = [-20.0, -2.0, 0.0, 2.0, 20.0]
ACTS = [-40.0, -20.0, -5.0, -0.5, 0.0, 0.5, 5.0, 20.0, 40.0]
MS = [1e-3, 0.5, 2.0]
_cache = {}


def _softplus(r):
  return (D(1) + r.exp()).ln()


def ref_scale(raw, ms, vs):
  return (_softplus(D(raw)) + D(ms)) * D(vs)


def ref_logjac(x):
  """log(1 - tanh(x)^2) evaluated naively at 100 digits."""
  x = D(x)
  # 1 - tanh^2 ~ 4 exp(-2|x|): keep 100 significant digits after cancellation
  with decimal.localcontext() as ctx:
    ctx.prec = 100 + int(abs(x)) + 10
    e = (2 * x).exp()
    t = (e - 1) / (e + 1)
    return +(1 - t * t).ln()


def ref_logprob1(x, loc, raw, ms, vs):
  k = (x, loc, raw, ms, vs)
  if k not in _cache:
    sc = ref_scale(raw, ms, vs)
    z = (D(x) - D(loc)) / sc
    pi = D('3.14159265358979323846264338327950288419716939937510582097494459')
    lp = -z * z / 2 - (2 * pi).ln() / 2 - sc.ln()
    _cache[k] = (float(lp - ref_logjac(x)), float(sc))
  return _cache[k]


def _dist(event, ms, vs):
  from brax.training import distribution
  # positional on purpose: (event_size, min_std, var_scale) is the public
  # signature
  return distribution.NormalTanhDistribution(event, ms, vs)


def _grid1():
  return list(itertools.product(LOCS, RAWS, ACTS))


def _cases(event):
  """Per-case (loc[event], raw[event], act[event]) with distinct dims."""
  g = _grid1()
  n = len(g)
  out = []
  for i in range(n):
    dims = [g[(i + d * 37) % n] for d in range(event)]
    out.append(([d[0] for d in dims], [d[1] for d in dims],
                [d[2] for d in dims]))
  return out


def _viol(res, key, what, case):
  if len(res['violations']) < 12:
    res['violations'].append(dict(key='C20:' + key, what=what, case=case))


def _check_dist(res, event, ms, vs, seed):
  import jax
  import jax.numpy as jnp
  dist = _dist(event, ms, vs)
  cases = _cases(event)
  loc = np.array([c[0] for c in cases])
  raw = np.array([c[1] for c in cases])
  act = np.array([c[2] for c in cases])
  params = jnp.asarray(np.concatenate([loc, raw], -1))
  lp = np.asarray(dist.log_prob(params, jnp.asarray(act)))
  sc = np.asarray(dist.create_dist(params).scale)
  mode = np.asarray(dist.mode(params))
  cb = dict(kind='dist', event=event, ms=ms, vs=vs)
  if lp.shape != (len(cases),):
    _viol(res, 'log_prob-shape', 'log_prob shape %s for event %d' %
          (lp.shape, event), dict(cb, i=0))
    return
  for i, c in enumerate(cases):
    want = 0.0
    for d in range(event):
      w, s = ref_logprob1(c[2][d], c[0][d], c[1][d], ms, vs)
      want += w
      if not abs(sc[i, d] - s) <= 1e-12 * (1 + s):
        _viol(res, 'scale', 'scale %r, reference %r (raw %r min_std %r '
              'var_scale %r)' % (float(sc[i, d]), s, c[1][d], ms, vs),
              dict(cb, i=i))
      if not sc[i, d] >= ms * vs * (1 - 1e-15):
        _viol(res, 'scale-floor', 'scale %r below min_std*var_scale %r' %
              (float(sc[i, d]), ms * vs), dict(cb, i=i))
    res['evaluations'] += 1
    if event > 1 or max(abs(a) for a in c[2]) >= 5 or abs(c[1][0]) == 20:
      res['nontrivial'] += 1
    if not abs(lp[i] - want) <= 1e-9 + 1e-9 * abs(want):
      _viol(res, 'log_prob', 'event %d loc %s raw %s action %s min_std %r '
            'var_scale %r: log_prob %r, reference %r' %
            (event, c[0], c[1], c[2], ms, vs, float(lp[i]), want),
            dict(cb, i=i))
    if not (np.all(np.abs(mode[i]) <= 1.0) and np.allclose(
        mode[i], np.tanh(np.array(c[0])), rtol=0, atol=1e-14)):
      _viol(res, 'mode', 'mode %s for loc %s' % (mode[i].tolist(), c[0]),
            dict(cb, i=i))
  # sampling: range, determinism, reparameterisation, entropy
  for k in range(8 if event <= 2 else 3):
    key = jax.random.PRNGKey(k + 100 * seed)
    s1 = np.asarray(dist.sample(params, key))
    s2 = np.asarray(dist.sample(params, key))
    rawsamp = np.asarray(dist.sample_no_postprocessing(params, key))
    res['evaluations'] += 1
    cs = dict(cb, key=k)
    if not np.array_equal(s1, s2):
      _viol(res, 'sample-determinism', 'same key, different samples', cs)
    if not (np.all(np.isfinite(s1)) and np.all(np.abs(s1) <= 1.0)):
      _viol(res, 'sample-range', 'sample outside [-1,1] or non-finite: max '
            '|s| %r' % float(np.nanmax(np.abs(s1))), cs)
    if not np.allclose(s1, np.tanh(rawsamp), rtol=0, atol=1e-14):
      _viol(res, 'sample-postprocess', 'sample != tanh(pre-squash sample)', cs)
    eps = (rawsamp - loc) / sc
    # noise must not depend on the parameters: rows share the key, so every
    # row with the same position in the batch... compare with a second
    # parameter set (shifted loc, doubled scale) under the same key
    params2 = jnp.asarray(np.concatenate([loc + 1.5, raw * 0.5], -1))
    raw2 = np.asarray(dist.sample_no_postprocessing(params2, key))
    sc2 = np.asarray(dist.create_dist(params2).scale)
    eps2 = (raw2 - (loc + 1.5)) / sc2
    if not np.allclose(eps, eps2, rtol=1e-9, atol=1e-7):
      _viol(res, 'reparameterisation', 'noise depends on the parameters '
            '(max diff %r)' % float(np.max(np.abs(eps - eps2))), cs)
    ent = np.asarray(dist.entropy(params, key))
    x = np.asarray(dist.create_dist(params).sample(seed=key))
    want = np.zeros(len(cases))
    for i in range(len(cases)):
      for d in range(event):
        s = ref_logprob1(cases[i][2][d], cases[i][0][d], cases[i][1][d], ms,
                         vs)[1]
        want[i] += 0.5 + 0.5 * np.log(2 * np.pi) + np.log(s) + float(
            ref_logjac(repr(float(x[i, d]))))
    if ent.shape != want.shape or not np.allclose(ent, want, rtol=1e-9,
                                                  atol=1e-9):
      j = int(np.argmax(np.abs(ent - want))) if ent.shape == want.shape else 0
      _viol(res, 'entropy', 'entropy %r, reference %r (case %d)' %
            (ent.reshape(-1)[j].tolist(), want[j], j), cs)
  # d sample / d loc = 1 - tanh^2 (reparameterised gradient), first rows
  key = jax.random.PRNGKey(3)
  sub = params[:8]

  def f(p):
    return dist.sample(p, key)
  jac = np.asarray(jax.jacobian(f)(sub))       # [8,event,8,2*event]
  rs = np.asarray(dist.sample_no_postprocessing(sub, key))
  for i in range(8):
    for d in range(event):
      g = jac[i, d, i, d]
      want = 1 - np.tanh(rs[i, d]) ** 2
      if not abs(g - want) <= 1e-9 * (1 + abs(want)):
        _viol(res, 'reparameterisation-gradient', 'd sample/d loc = %r, want '
              '%r' % (float(g), float(want)), dict(cb, i=i))
  res['evaluations'] += 1
  res['samples'].append(dict(event=event, min_std=ms, var_scale=vs,
                             example=dict(loc=cases[7][0], raw=cases[7][1],
                                          action=cases[7][2],
                                          log_prob=float(lp[7]))))


def _check_shapes(res, seed):
  """Batch shapes (), (3,), (2,3) and the bijector round trip."""
  import jax
  import jax.numpy as jnp
  for event in (1, 2, 6):
    dist = _dist(event, 1e-3, 1.0)
    cases = _cases(event)[::37][:6]
    flat = [(np.array(c[0] + c[1]), np.array(c[2])) for c in cases]
    want = []
    for c in cases:
      want.append(sum(ref_logprob1(c[2][d], c[0][d], c[1][d], 1e-3, 1.0)[0]
                      for d in range(event)))
    want = np.array(want)
    for shape in ((), (3,), (2, 3)):
      n = int(np.prod(shape)) if shape else 1
      p = np.stack([f[0] for f in flat[:n]]).reshape(shape + (2 * event,))
      a = np.stack([f[1] for f in flat[:n]]).reshape(shape + (event,))
      lp = np.asarray(dist.log_prob(jnp.asarray(p), jnp.asarray(a)))
      res['evaluations'] += 1
      res['nontrivial'] += 1
      cs = dict(kind='shapes', event=event, shape=list(shape))
      if lp.shape != shape or not np.allclose(lp.reshape(-1), want[:n],
                                              rtol=1e-9, atol=1e-9):
        _viol(res, 'log_prob-batch-shape', 'batch shape %s event %d: log_prob '
              '%s, reference %s' % (shape, event, lp.tolist(),
                                    want[:n].tolist()), cs)
      s = np.asarray(dist.sample(jnp.asarray(p), jax.random.PRNGKey(seed)))
      if s.shape != shape + (event,) or not np.all(np.abs(s) <= 1):
        _viol(res, 'sample-shape', 'sample shape %s for batch shape %s' %
              (s.shape, shape), cs)
  dist = _dist(1, 1e-3, 1.0)
  ys = np.concatenate([np.linspace(-0.999999, 0.999999, 2001),
                       np.array([-1 + 1e-12, 1 - 1e-12, 0.0])])
  back = np.asarray(dist.postprocess(dist.inverse_postprocess(jnp.asarray(ys))))
  res['evaluations'] += len(ys)
  if not np.allclose(back, ys, rtol=0, atol=1e-12):
    _viol(res, 'bijector-roundtrip', 'postprocess(inverse_postprocess(y)) '
          'differs by %r' % float(np.max(np.abs(back - ys))),
          dict(kind='shapes', event=1, shape=[]))
  # normalisation of the squashed density
  for loc in (-1.0, 0.0, 0.3, 2.0):
    for raw in (-2.0, 0.0, 2.0):
      sc = float(ref_scale(raw, 1e-3, 1.0))
      xs = np.linspace(loc - 12 * sc, loc + 12 * sc, 20001)
      lp = np.asarray(dist.log_prob(jnp.asarray([[loc, raw]]),
                                    jnp.asarray(xs[:, None])))
      # density of y = tanh(x) integrated over y, substituted back to x:
      # int p_y(tanh x) (1 - tanh^2 x) dx (trapezoid on a smooth integrand)
      ax = np.abs(xs)
      logjac = np.log(4.0) - 2 * ax - 2 * np.log1p(np.exp(-2 * ax))
      f = np.exp(lp + logjac)
      integ = float(np.sum(0.5 * (f[1:] + f[:-1]) * np.diff(xs)))
      res['evaluations'] += 1
      res['nontrivial'] += 1
      if not abs(integ - 1.0) <= 1e-6:
        _viol(res, 'density-normalisation', 'squashed density integrates to '
              '%r for loc %r raw scale %r' % (integ, loc, raw),
              dict(kind='shapes', event=1, shape=[]))
  res['samples'].append(dict(kind='shapes+roundtrip+quadrature'))


def _check_policy(res, seed):
  import jax
  import jax.numpy as jnp
  from brax.training.acme import running_statistics as rs
  from brax.training.acme import specs
  from brax.training.agents.ppo import networks as ppo_networks
  from brax.training import types
  for obs_size, act_size, dict_obs in itertools.product((1, 3), (1, 2),
                                                        (False, True, 'key')):
    kw = dict(policy_hidden_layer_sizes=(4, 4), value_hidden_layer_sizes=(4,))
    okey = 'state'
    if dict_obs == 'key':
      # the policy reads an entry other than 'state' ('state' exists too and
      # has the same width, so a wrong entry is not a shape error)
      okey = 'policy_in'
      kw.update(policy_obs_key='policy_in', value_obs_key='state')
    osz = ({okey: (obs_size,), 'extra': (2,)} if dict_obs != 'key' else
           {'policy_in': (obs_size,), 'state': (obs_size,), 'extra': (2,)}
           ) if dict_obs else obs_size
    nets = ppo_networks.make_ppo_networks(
        osz, act_size, preprocess_observations_fn=rs.normalize, **kw)
    # independent reference network: plain array observations (no key
    # lookup, no preprocessor), same layer sizes, fed with the hand-normalised
    # policy entry
    plain = ppo_networks.make_ppo_networks(
        obs_size, act_size,
        preprocess_observations_fn=types.identity_observation_preprocessor,
        policy_hidden_layer_sizes=(4, 4), value_hidden_layer_sizes=(4,))
    pparams = nets.policy_network.init(jax.random.PRNGKey(seed))
    rng = np.random.RandomState(5 + seed)
    mean = rng.uniform(-3, 3, size=(obs_size,))
    std = rng.uniform(0.2, 4, size=(obs_size,))
    if dict_obs:
      mm = {okey: jnp.asarray(mean), 'extra': jnp.asarray([5.0, -7.0])}
      ss = {okey: jnp.asarray(std), 'extra': jnp.asarray([0.5, 3.0])}
      if dict_obs == 'key':
        mm['state'] = jnp.asarray(mean * 0 + 1.5)
        ss['state'] = jnp.asarray(std * 0 + 0.7)
      norm = rs.NestedMeanStd(mean=mm, std=ss)
    else:
      norm = rs.NestedMeanStd(mean=jnp.asarray(mean), std=jnp.asarray(std))
    make = ppo_networks.make_inference_fn(nets)
    for batch in ((), (5,)):
      o = rng.uniform(-4, 4, size=batch + (obs_size,))
      ex = rng.uniform(-4, 4, size=batch + (2,))
      other = rng.uniform(-4, 4, size=batch + (obs_size,))
      obs = ({okey: jnp.asarray(o), 'extra': jnp.asarray(ex)} if dict_obs
             else jnp.asarray(o))
      onorm = (o - mean) / std
      obs_n = ({okey: jnp.asarray(onorm), 'extra': jnp.asarray(ex)}
               if dict_obs else jnp.asarray(onorm))
      if dict_obs == 'key':
        obs['state'] = jnp.asarray(other)
        obs_n['state'] = jnp.asarray((other - 1.5) / 0.7)
      logits = np.asarray(plain.policy_network.apply(None, pparams,
                                                     jnp.asarray(onorm)))
      dist = nets.parametric_action_distribution
      cs = dict(kind='policy', obs_size=obs_size, act_size=act_size,
                dict_obs=dict_obs, batch=list(batch))
      for k in range(4):
        key = jax.random.PRNGKey(k)
        act, extras = make((norm, pparams), False)(obs, key)
        act = np.asarray(act)
        res['evaluations'] += 1
        res['nontrivial'] += 1
        if set(extras) != {'log_prob', 'raw_action'}:
          _viol(res, 'policy-extras', 'extras keys %s' % sorted(extras), cs)
          continue
        ra = np.asarray(extras['raw_action'])
        lp = np.asarray(extras['log_prob'])
        if not np.allclose(act, np.tanh(ra), rtol=0, atol=1e-14):
          _viol(res, 'policy-action', 'action != tanh(raw_action)', cs)
        want_ra = np.asarray(dist.sample_no_postprocessing(
            jnp.asarray(logits), key))
        if ra.shape != want_ra.shape or not np.allclose(ra, want_ra,
                                                        rtol=1e-9, atol=1e-9):
          _viol(res, 'policy-normalisation', 'raw action is not the sample '
                'under the logits of the normalised observation (max diff %r)'
                % float(np.max(np.abs(ra - want_ra)))
                if ra.shape == want_ra.shape else 'raw action shape', cs)
          continue
        # exact log-probability of that raw action under those logits
        lg = logits.reshape(-1, 2 * act_size)
        rr = ra.reshape(-1, act_size)
        want = np.array([sum(ref_logprob1(float(rr[i, d]), float(lg[i, d]),
                                          float(lg[i, act_size + d]), 1e-3,
                                          1)[0] for d in range(act_size))
                         for i in range(len(rr))])
        if lp.shape != batch or not np.allclose(lp.reshape(-1), want,
                                                rtol=1e-9, atol=1e-9):
          _viol(res, 'policy-log_prob', 'log_prob %s, reference %s' %
                (lp.reshape(-1).tolist(), want.tolist()), cs)
      act, extras = make((norm, pparams), True)(obs, jax.random.PRNGKey(0))
      res['evaluations'] += 1
      if extras != {} or not np.allclose(
          np.asarray(act), np.tanh(logits[..., :act_size]), rtol=0,
          atol=1e-12):
        _viol(res, 'policy-deterministic', 'deterministic policy is not the '
              'mode of the normalised-observation distribution', cs)
    res['samples'].append(dict(kind='policy', obs_size=obs_size,
                               act_size=act_size, dict_obs=dict_obs))


def tasks(tier, seed):
  ts = []
  events = range(1, 7)
  for event in events:
    for ms in MS:
      for vs in MS:
        if tier == 'quick' and event > 2 and (ms, vs) not in (
            (1e-3, 2.0), (0.5, 0.5), (2.0, 1e-3), (1e-3, 1e-3)):
          continue
        ts.append(dict(name='dist e=%d ms=%g vs=%g' % (event, ms, vs),
                       kind='dist', event=event, ms=ms, vs=vs,
                       cost=event * 10))
  # defaults as users get them
  ts.append(dict(name='dist defaults', kind='dist', event=2, ms=1e-3, vs=1,
                 cost=20))
  ts.append(dict(name='shapes', kind='shapes', cost=30))
  ts.append(dict(name='policy', kind='policy', cost=30))
  return ts


def run_task(task):
  res = dict(evaluations=0, nontrivial=0, violations=[], samples=[],
             outcomes=[], extra={})
  if task['kind'] == 'dist':
    _check_dist(res, task['event'], task['ms'], task['vs'], task['seed'])
    res['samples'] = res['samples'][:1]
  elif task['kind'] == 'shapes':
    _check_shapes(res, task['seed'])
  else:
    _check_policy(res, task['seed'])
  res['outcomes'] = [task['name']]
  return res


def replay(rec):
  c = rec['case']
  res = dict(evaluations=0, nontrivial=0, violations=[], samples=[])
  if c['kind'] == 'dist':
    _check_dist(res, c['event'], c['ms'], c['vs'], 0)
  elif c['kind'] == 'shapes':
    _check_shapes(res, 0)
  else:
    _check_policy(res, 0)
  vs = [v for v in res['violations'] if v['key'] == rec['key']] or \
      res['violations']
  return (not vs), '\n'.join(v['what'] for v in vs[:5])
