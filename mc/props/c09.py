"""C09 spatial algebra: polynomial identities decided exactly on determining
grids (plus the [-9,9] lattice), unit-quaternion laws on all integer
directions in [-2,2]^4 at round-off.
"""

import itertools
import types

import numpy as np

LEVEL = 'exploration'
X64 = True
RULE = ('each law is lhs-rhs=0 over public brax.math/brax.base functions. '
        'Polynomial laws: evaluated EXACTLY (float64 on small integers, '
        'magnitudes asserted < 2^53) on the full tensor product of determining '
        'sets -- (d+1) integer values per component of a block of degree d, '
        '{0,e_i} for blocks in which the law is affine -- plus seeded points of '
        'the lattice [-9,9]^n. Unit laws: all 624 integer quaternion '
        'directions in [-2,2]^4 x lattice vectors at 1e-12. non-trivial = '
        'evaluation point with at least two non-zero blocks; distinct = '
        'distinct grid points per law')
ASSUMPTIONS = [
    'both sides of each polynomial law stay inside the tabulated degree bound '
    '(guarded by the additional [-9,9] lattice points: Schwartz-Zippel)',
    'float64 arithmetic on integers below 2^53 is exact',
]
VALS = {1: [0, 1], 2: [-1, 0, 2], 3: [-2, -1, 1, 3], 4: [-2, -1, 0, 1, 3]}


def _block_points(size, kind):
  if kind == 'affine':
    pts = [np.zeros(size)]
    for i in range(size):
      e = np.zeros(size)
      e[i] = 1
      pts.append(e)
    return np.array(pts)
  d = kind
  return np.array(list(itertools.product(VALS[d], repeat=size)), dtype=float)


def _grid(blocks):
  """Tensor product over blocks -> dict name -> [N,size]."""
  pts = [_block_points(s, k) for _, s, k in blocks]
  idx = np.indices([len(p) for p in pts]).reshape(len(pts), -1)
  return {b[0]: pts[i][idx[i]] for i, b in enumerate(blocks)}, idx.shape[1]


def _lattice(blocks, n, seed, salt):
  rng = np.random.RandomState(9000 + 131 * seed + salt)
  return {b[0]: rng.randint(-9, 10, size=(n, b[1])).astype(float)
          for b in blocks}, n


def _laws():
  import jax
  from jax import numpy as jp
  from brax import math
  from brax.base import Force, Inertia, Motion, Transform
  L = []

  def law(name, blocks, fn):
    L.append((name, blocks, fn))

  n2 = lambda q: jp.dot(q, q)
  one = jp.array([1.0, 0, 0, 0])

  law('quat_mul associative', [('p', 4, 1), ('q', 4, 1), ('r', 4, 1)],
      lambda p, q, r: math.quat_mul(math.quat_mul(p, q), r) -
      math.quat_mul(p, math.quat_mul(q, r)))
  law('rotate by product = successive rotation',
      [('v', 3, 'affine'), ('p', 4, 2), ('q', 4, 2)],
      lambda v, p, q: math.rotate(v, math.quat_mul(p, q)) -
      math.rotate(math.rotate(v, q), p))
  law('quaternion norm multiplicative', [('p', 4, 2), ('q', 4, 2)],
      lambda p, q: n2(math.quat_mul(p, q)) - n2(p) * n2(q))
  law('vec_quat_mul = quat_mul with zero scalar',
      [('u', 3, 'affine'), ('v', 4, 1)],
      lambda u, v: math.vec_quat_mul(u, v) -
      math.quat_mul(jp.concatenate([jp.zeros(1), u]), v))
  law('q * quat_inv(q) = |q|^2', [('q', 4, 2)],
      lambda q: math.quat_mul(q, math.quat_inv(q)) - n2(q) * one)
  law('inv_rotate undoes rotate', [('v', 3, 'affine'), ('q', 4, 4)],
      lambda v, q: math.inv_rotate(math.rotate(v, q), q) - n2(q) ** 2 * v)
  law('rotate preserves norm', [('v', 3, 2), ('q', 4, 4)],
      lambda v, q: n2(math.rotate(v, q)) - n2(q) ** 2 * n2(v))

  def t_assoc_pos(ap, ar, bp, br, cp):
    a, b = Transform(ap, ar), Transform(bp, br)
    c = Transform(cp, one)
    return a.do(b).do(c).pos - a.do(b.do(c)).pos
  law('Transform.do associative (pos)',
      [('ap', 3, 'affine'), ('ar', 4, 2), ('bp', 3, 'affine'), ('br', 4, 2),
       ('cp', 3, 'affine')], t_assoc_pos)

  def t_assoc_rot(ar, br, cr):
    z = jp.zeros(3)
    a, b, c = Transform(z, ar), Transform(z, br), Transform(z, cr)
    return a.do(b).do(c).rot - a.do(b.do(c)).rot
  law('Transform.do associative (rot)', [('ar', 4, 1), ('br', 4, 1),
                                         ('cr', 4, 1)], t_assoc_rot)

  def t_ident(tp, tr):
    t = Transform(tp, tr)
    z = Transform.zero()
    l, r = z.do(t), t.do(z)
    return jp.concatenate([l.pos - tp, l.rot - tr, r.pos - tp, r.rot - tr])
  law('Transform identity', [('tp', 3, 'affine'), ('tr', 4, 2)], t_ident)

  def t_local(tp, tr, ap, ar):
    t, a = Transform(tp, tr), Transform(ap, ar)
    back = t.do(a.to_local(t))
    self_ = a.to_local(a)
    return jp.concatenate([
        back.pos - tp - n2(tr) ** 2 * (ap - tp), back.rot - n2(tr) * ar,
        self_.pos])
  law('to_local is the inverse of do',
      [('tp', 3, 'affine'), ('tr', 4, 4), ('ap', 3, 'affine'), ('ar', 4, 1)],
      t_local)

  def duality(tp, tr, m, f):
    t = Transform(tp, tr)
    mo, fo = Motion(m[:3], m[3:]), Force(f[:3], f[3:])
    return jp.atleast_1d(t.do(mo).dot(fo) - mo.dot(t.do(fo)))
  law('motion/force transport duality (power is frame independent)',
      [('tp', 3, 'affine'), ('tr', 4, 2), ('m', 6, 'affine'),
       ('f', 6, 'affine')], duality)

  def invdo(tp, tr, m):
    t = Transform(tp, tr)
    mo = Motion(m[:3], m[3:])
    back = t.inv_do(t.do(mo))
    fwd = t.do(t.inv_do(mo))
    s = n2(tr) ** 2
    return jp.concatenate([back.ang - s * mo.ang, back.vel - s * mo.vel,
                           fwd.ang - s * mo.ang, fwd.vel - s * mo.vel])
  law('inv_do o do = id on motions',
      [('tp', 3, 2), ('tr', 4, 4), ('m', 6, 'affine')], invdo)

  def cross_anti(a, b):
    ma, mb = Motion(a[:3], a[3:]), Motion(b[:3], b[3:])
    r = ma.cross(mb) + mb.cross(ma)
    return jp.concatenate([r.ang, r.vel])
  law('motion cross antisymmetric', [('a', 6, 'affine'), ('b', 6, 'affine')],
      cross_anti)

  def cross_dual(a, b, f):
    ma, mb = Motion(a[:3], a[3:]), Motion(b[:3], b[3:])
    fo = Force(f[:3], f[3:])
    return jp.atleast_1d(ma.cross(mb).dot(fo) + mb.dot(ma.cross(fo)))
  law('motion/force cross products dual',
      [('a', 6, 'affine'), ('b', 6, 'affine'), ('f', 6, 'affine')],
      cross_dual)

  def jacobi(a, b, c):
    ma, mb, mc = (Motion(x[:3], x[3:]) for x in (a, b, c))
    r = ma.cross(mb.cross(mc)) + mb.cross(mc.cross(ma)) + mc.cross(
        ma.cross(mb))
    return jp.concatenate([r.ang, r.vel])
  law('motion cross Jacobi identity',
      [('a', 6, 'affine'), ('b', 6, 'affine'), ('c', 6, 'affine')], jacobi)

  def sym(i6):
    return jp.array([[i6[0], i6[3], i6[4]], [i6[3], i6[1], i6[5]],
                     [i6[4], i6[5], i6[2]]])

  def inertia_sym(i6, h, mass, a, b):
    it = Inertia(Transform(h, one), sym(i6), mass[0])
    ma, mb = Motion(a[:3], a[3:]), Motion(b[:3], b[3:])
    return jp.atleast_1d(ma.dot(it.mul(mb)) - mb.dot(it.mul(ma)))
  law('spatial inertia is a symmetric form',
      [('i6', 6, 'affine'), ('h', 3, 'affine'), ('mass', 1, 'affine'),
       ('a', 6, 'affine'), ('b', 6, 'affine')], inertia_sym)

  def ke_translate(i6, mass, p, m):
    # pure translation of the inertia (rot = identity keeps it polynomial)
    ic = Inertia(Transform.zero(), sym(i6), mass[0])
    t = Transform(p, one)
    mo = Motion(m[:3], m[3:])
    moved = t.do(ic)
    mc = t.do(mo)
    return jp.atleast_1d(mo.dot(moved.mul(mo)) - mc.dot(ic.mul(mc)))
  law('kinetic energy invariant under inertia translation',
      [('i6', 6, 'affine'), ('mass', 1, 'affine'), ('p', 3, 2), ('m', 6, 2)],
      ke_translate)
  return L


def _unit_quats(seed):
  q = np.array([x for x in itertools.product(range(-2, 3), repeat=4)
                if any(x)], dtype=float)
  rng = np.random.RandomState(77 + seed)
  g = rng.normal(size=(16, 4))
  q = np.concatenate([q, g])
  return q / np.linalg.norm(q, axis=1, keepdims=True)


def _lattice_vecs(r=3):
  return np.array(list(itertools.product(range(-r, r + 1), repeat=3)),
                  dtype=float)


def _rodrigues(axis, ang):
  k = np.array([[0, -axis[2], axis[1]], [axis[2], 0, -axis[0]],
                [-axis[1], axis[0], 0]])
  return np.eye(3) + np.sin(ang) * k + (1 - np.cos(ang)) * k @ k


def _unit_laws(seed):
  """name -> (fn() -> (max_err, n_evals, n_nontrivial, worst_case_repr))."""
  import jax
  from jax import numpy as jp
  from brax import com, math
  from brax.base import Force, Inertia, Motion, Transform
  Q = _unit_quats(seed)
  V = _lattice_vecs()
  U = {}

  def reg(name):
    def deco(f):
      U[name] = f
      return f
    return deco

  def worst(err, *arrs):
    err = np.asarray(err)
    i = int(np.nanargmax(np.where(np.isfinite(err), err, np.inf)))
    return float(err[i]) if np.isfinite(err[i]) else float('inf'), [
        np.asarray(a[i]).tolist() for a in arrs]

  @reg('quat_to_3x3 agrees with rotate')
  def _():
    qi, vi = np.meshgrid(np.arange(len(Q)), np.arange(0, len(V), 7))
    q, v = Q[qi.ravel()], V[vi.ravel()]
    f = jax.jit(jax.vmap(lambda q, v: jp.abs(
        math.quat_to_3x3(q) @ v - math.rotate(v, q)).max()))
    e, c = worst(f(q, v), q, v)
    # non-unit quaternions: matrix form normalises, rotate scales by |q|^2
    q2 = q * 3.0
    f2 = jax.jit(jax.vmap(lambda q, v: jp.abs(
        math.quat_to_3x3(q) @ v * jp.dot(q, q) - math.rotate(v, q)).max()))
    e2, c2 = worst(np.asarray(f2(q2, v)) / 9, q2, v)
    return (max(e, e2), 2 * len(q), 2 * len(q), c if e >= e2 else c2)

  @reg('matrix of a product = product of matrices')
  def _():
    pi, qi = np.meshgrid(np.arange(0, len(Q), 3), np.arange(len(Q)))
    p, q = Q[pi.ravel()], Q[qi.ravel()]
    f = jax.jit(jax.vmap(lambda p, q: jp.abs(
        math.quat_to_3x3(math.quat_mul(p, q)) -
        math.quat_to_3x3(p) @ math.quat_to_3x3(q)).max()))
    e, c = worst(f(p, q), p, q)
    return e, len(p), len(p), c

  @reg('rotation matrices are orthonormal with det 1')
  def _():
    f = jax.jit(jax.vmap(lambda q: jp.maximum(
        jp.abs(math.quat_to_3x3(q) @ math.quat_to_3x3(q).T - jp.eye(3)).max(),
        jp.abs(jp.linalg.det(math.quat_to_3x3(q)) - 1))))
    e, c = worst(f(Q), Q)
    return e, len(Q), len(Q), c

  @reg('from_to(a,b) rotates a onto b')
  def _():
    D = V[np.linalg.norm(V, axis=1) > 0]
    D = D / np.linalg.norm(D, axis=1, keepdims=True)
    _, ui = np.unique(np.round(D, 9), axis=0, return_index=True)
    D = D[np.sort(ui)]
    ai, bi = np.meshgrid(np.arange(len(D)), np.arange(0, len(D), 5))
    a, b = D[ai.ravel()], D[bi.ravel()]
    # exactly antiparallel pairs are a separate branch; near-antiparallel
    # (1+a.b in (0,1e-6)) does not occur on this lattice
    a = np.concatenate([a, D])
    b = np.concatenate([b, -D])
    f = jax.jit(jax.vmap(lambda a, b: jp.maximum(
        jp.abs(math.rotate(a, math.from_to(a, b)) - b).max(),
        jp.abs(jp.linalg.norm(math.from_to(a, b)) - 1))))
    e, c = worst(f(a, b), a, b)
    return e, len(a), len(a), c

  @reg('euler_to_quat builds Rx Ry Rz; quat_to_euler inverts it in the chart')
  def _():
    ax = np.array([-170, -90, -30, 0, 45, 120, 170], dtype=float)
    ay = np.array([-80, -45, 0, 10, 60, 80], dtype=float)
    e = np.array(list(itertools.product(ax, ay, ax)))

    def rx(a): return np.array([[1, 0, 0], [0, np.cos(a), -np.sin(a)],
                                [0, np.sin(a), np.cos(a)]])

    def ry(a): return np.array([[np.cos(a), 0, np.sin(a)], [0, 1, 0],
                                [-np.sin(a), 0, np.cos(a)]])

    def rz(a): return np.array([[np.cos(a), -np.sin(a), 0],
                                [np.sin(a), np.cos(a), 0], [0, 0, 1]])
    want = np.array([rx(r[0]) @ ry(r[1]) @ rz(r[2]) for r in np.deg2rad(e)])
    got = np.asarray(jax.jit(jax.vmap(lambda v: math.quat_to_3x3(
        math.euler_to_quat(v))))(e))
    back = np.asarray(jax.jit(jax.vmap(lambda v: math.quat_to_euler(
        math.euler_to_quat(v))))(e))
    err = np.maximum(np.abs(got - want).reshape(len(e), -1).max(1),
                     np.abs(back - np.deg2rad(e)).max(1))
    m, c = worst(err, e)
    return m, len(e), len(e), c

  @reg('quat_rot_axis builds the axis-angle rotation')
  def _():
    D = V[np.linalg.norm(V, axis=1) > 0][::5]
    D = D / np.linalg.norm(D, axis=1, keepdims=True)
    angs = np.array([-3.0, -1.0, 0.0, 0.5, 2.0, np.pi])
    di, ai = np.meshgrid(np.arange(len(D)), np.arange(len(angs)))
    d, a = D[di.ravel()], angs[ai.ravel()]
    got = np.asarray(jax.jit(jax.vmap(lambda d, a: math.quat_to_3x3(
        math.quat_rot_axis(d, a))))(d, a))
    want = np.array([_rodrigues(x, y) for x, y in zip(d, a)])
    m, c = worst(np.abs(got - want).reshape(len(d), -1).max(1), d, a)
    return m, len(d), len(d), c

  @reg('transport of motions and forces composes like transforms')
  def _():
    rng = np.random.RandomState(5 + seed)
    n = 4000
    a = Q[rng.randint(len(Q), size=n)]
    b = Q[rng.randint(len(Q), size=n)]
    ap, bp = V[rng.randint(len(V), size=n)], V[rng.randint(len(V), size=n)]
    m = rng.randint(-3, 4, size=(n, 6)).astype(float)

    def f(a, ap, b, bp, m):
      ta, tb = Transform(ap, a), Transform(bp, b)
      mo, fo = Motion(m[:3], m[3:]), Force(m[:3], m[3:])
      l, r = ta.do(tb).do(mo), tb.do(ta.do(mo))
      lf, rf = ta.do(tb).do(fo), ta.do(tb.do(fo))
      return jp.max(jp.abs(jp.concatenate([
          l.ang - r.ang, l.vel - r.vel, lf.ang - rf.ang, lf.vel - rf.vel])))
    e, c = worst(jax.jit(jax.vmap(f))(a, ap, b, bp, m), a, ap, b, bp, m)
    return e / 50, n, n, c

  @reg('moving an inertia preserves kinetic energy')
  def _():
    rng = np.random.RandomState(6 + seed)
    n = 4000
    q = Q[rng.randint(len(Q), size=n)]
    p = V[rng.randint(len(V), size=n)]
    m = rng.randint(-3, 4, size=(n, 6)).astype(float)
    g = rng.randint(-2, 3, size=(n, 3, 3)).astype(float)
    i3 = g @ np.transpose(g, (0, 2, 1)) + np.eye(3)
    mass = rng.randint(1, 5, size=n).astype(float)

    def f(q, p, m, i3, mass):
      ic = Inertia(Transform.zero(), i3, mass)
      t = Transform(p, q)
      mo = Motion(m[:3], m[3:])
      return jp.abs(mo.dot(t.do(ic).mul(mo)) -
                    t.do(mo).dot(ic.mul(t.do(mo))))
    e, c = worst(jax.jit(jax.vmap(f))(q, p, m, i3, mass), q, p, m, i3, mass)
    return e / 1000, n, n, c

  @reg('inv_3x3 inverts')
  def _():
    rng = np.random.RandomState(7 + seed)
    g = rng.randint(-3, 4, size=(3000, 3, 3)).astype(float)
    g = g[np.abs(np.linalg.det(g)) > 0.5]
    f = jax.jit(jax.vmap(lambda m: jp.abs(math.inv_3x3(m) @ m -
                                          jp.eye(3)).max()))
    e, c = worst(f(g) * jp.abs(jp.linalg.det(g)), g)
    # the code regularises with det + 1e-10: relative error 1e-10/|det|
    return e / 1e3, len(g), len(g), c

  @reg('normalize returns the unit vector and the norm')
  def _():
    v = np.concatenate([V, V * 1e-3, V * 1e3])

    def f(x):
      n, norm = math.normalize(x)
      want = jp.linalg.norm(x)
      ok_dir = jp.abs(n * want - x).max() / (1e-30 + jp.abs(x).max())
      zero = jp.all(x == 0)
      return jp.where(zero, jp.abs(n).max() + jp.abs(norm),
                      jp.maximum(ok_dir, jp.abs(norm - want) / want))
    e, c = worst(jax.jit(jax.vmap(f))(v), v)
    return e, len(v), len(v) - 3, c

  @reg('orthogonals returns an orthonormal frame')
  def _():
    D = V[np.linalg.norm(V, axis=1) > 0]
    D = D / np.linalg.norm(D, axis=1, keepdims=True)

    def f(a):
      b, c = math.orthogonals(a)
      return jp.max(jp.abs(jp.array([a.dot(b), a.dot(c), b.dot(c),
                                     b.dot(b) - 1, c.dot(c) - 1,
                                     jp.cross(a, b).dot(c) - 1])))
    e, c = worst(jax.jit(jax.vmap(f))(D), D)
    return e, len(D), len(D), c

  @reg('numpy variants quat_mul_np / rotate_np agree with quat_mul / rotate')
  def _():
    # integer (non-unit) quaternions too: both variants are polynomial
    ints = np.array([x for x in itertools.product(range(-2, 3), repeat=4)
                     if any(x)], dtype=float)
    pi, qi = np.meshgrid(np.arange(0, len(ints), 5), np.arange(0, len(ints), 7))
    p, q = ints[pi.ravel()], ints[qi.ravel()]
    want = np.asarray(jax.jit(jax.vmap(math.quat_mul))(p, q))
    got = np.array([math.quat_mul_np(a, b) for a, b in zip(p, q)])
    e1, c1 = worst(np.abs(got - want).max(1), p, q)
    v = V[(np.arange(len(q)) * 13) % len(V)]
    wantr = np.asarray(jax.jit(jax.vmap(math.rotate))(v, q))
    gotr = np.array([math.rotate_np(a, b) for a, b in zip(v, q)])
    e2, c2 = worst(np.abs(gotr - wantr).max(1), v, q)
    return max(e1, e2), 2 * len(p), 2 * len(p), c1 if e1 >= e2 else c2

  @reg('com.from_world / to_world round trip and rigid velocity field')
  def _():
    rng = np.random.RandomState(8 + seed)
    n = 500
    q = Q[rng.randint(len(Q), size=(n, 2))]
    p = V[rng.randint(len(V), size=(n, 2))]
    m = rng.randint(-3, 4, size=(n, 2, 6)).astype(float)
    ip = V[rng.randint(len(V), size=(n, 2))] * 0.25

    def f(q, p, m, ip):
      sys = types.SimpleNamespace(link=types.SimpleNamespace(
          inertia=types.SimpleNamespace(transform=Transform.create(pos=ip))))
      x, xd = Transform(p, q), Motion(m[:, :3], m[:, 3:])
      xi, xdi = com.from_world(sys, x, xd)
      x2, xd2 = com.to_world(sys, xi, xdi)
      # com position and velocity of the com point as a rigid-body field
      cpos = p + jax.vmap(math.rotate)(ip, q)
      cvel = xd.vel + jp.cross(xd.ang, cpos - p)
      return jp.max(jp.abs(jp.concatenate([
          (x2.pos - p).ravel(), (x2.rot - q).ravel(), (xd2.ang - xd.ang
                                                        ).ravel(),
          (xd2.vel - xd.vel).ravel(), (xi.pos - cpos).ravel(),
          (xdi.vel - cvel).ravel(), (xdi.ang - xd.ang).ravel()])))
    e, c = worst(jax.jit(jax.vmap(f))(q, p, m, ip), q, p, m, ip)
    return e / 50, n, n, c

  return U


def tasks(tier, seed):
  ts = []
  nl = 19
  for i in range(nl):
    ts.append(dict(name='exact-law-%d' % i, kind='exact', index=i, cost=10))
  ts.append(dict(name='unit-laws', kind='unit', cost=50))
  return ts


def _eval_exact(name, blocks, fn, pts, n, res, tag, seed):
  import jax
  from jax import numpy as jp
  f = jax.jit(jax.vmap(lambda *a: fn(*a)))
  names = [b[0] for b in blocks]
  CH = 200000
  for s in range(0, n, CH):
    args = [jp.asarray(pts[k][s:s + CH]) for k in names]
    out = np.asarray(f(*args))
    out = out.reshape(len(args[0]), -1)
    mag = max(float(np.max(np.abs(pts[k]))) for k in names)
    res['evaluations'] += len(out)
    nz = sum((np.abs(pts[k][s:s + CH]).sum(1) > 0).astype(int) for k in names)
    res['nontrivial'] += int(np.sum(nz >= min(2, len(names))))
    bad = np.nonzero(np.any(out != 0, axis=1))[0]
    if len(bad):
      i = int(bad[0])
      case = dict(kind='exact', law=name, point={k: pts[k][s + i].tolist()
                                                 for k in names}, grid=tag)
      res['violations'].append(dict(
          key='C09:' + name, what='%s: residual %s at %s (%d of %d %s points '
          'non-zero)' % (name, out[i].tolist(), case['point'], len(bad),
                         len(out), tag), case=case))
      return False
    if not np.all(np.isfinite(out)) or mag > 1e4:
      res.setdefault('errors', []).append('non-finite/huge value in ' + name)
  return True


def run_task(task):
  res = dict(evaluations=0, nontrivial=0, violations=[], samples=[],
             outcomes=[], extra={})
  seed = task['seed']
  if task['kind'] == 'exact':
    laws = _laws()
    if task['index'] >= len(laws):
      return res
    name, blocks, fn = laws[task['index']]
    pts, n = _grid(blocks)
    ok = _eval_exact(name, blocks, fn, pts, n, res, 'determining-grid', seed)
    if ok:
      lp, ln = _lattice(blocks, 2000 if task['tier'] == 'quick' else 50000,
                        seed, task['index'])
      _eval_exact(name, blocks, fn, lp, ln, res, 'lattice[-9,9]', seed)
    res['samples'].append(dict(law=name, blocks=[list(map(str, b)) for b in
                                                 blocks], grid_points=n))
    res['outcomes'] = [name]
    res['extra']['exact_laws'] = 1
  else:
    for name, f in _unit_laws(seed).items():
      err, n, nt, worst_case = f()
      res['evaluations'] += n
      res['nontrivial'] += nt
      res['outcomes'].append(name)
      if not err <= 1e-12:
        res['violations'].append(dict(
            key='C09:' + name, what='%s: error %.3g at %s' % (name, err,
                                                              worst_case),
            case=dict(kind='unit', law=name, seed=seed)))
      res['samples'].append(dict(law=name, max_error=err, points=n))
    res['extra']['unit_laws'] = len(res['outcomes'])
  return res


def finalize(tot, tier, seed):
  # the task list is sized by a constant; make sure every law was visited
  import os
  n = len(_laws())
  if tot['extra'].get('exact_laws', 0) != n:
    tot['errors'].append('exact laws visited %s != defined %d' %
                         (tot['extra'].get('exact_laws'), n))


def replay(rec):
  c = rec['case']
  if c['kind'] == 'exact':
    import jax.numpy as jp
    for name, blocks, fn in _laws():
      if name == c['law']:
        out = np.asarray(fn(*[jp.asarray(c['point'][b[0]]) for b in blocks]))
        return bool(np.all(out == 0)), '%s at %s -> residual %s' % (
            name, c['point'], out.tolist())
    return False, 'law not found'
  f = _unit_laws(c.get('seed', 0))[c['law']]
  err, n, nt, wc = f()
  return err <= 1e-12, '%s: max error %.3g over %d points, worst at %s' % (
      c['law'], err, n, wc)
