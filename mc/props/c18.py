"""C18 running statistics: exploration of all update histories of a data set.

State machine: (RunningStatisticsState, number of samples consumed).  An
operation presents the next k samples as one batch (with 1 or 2 leading batch
axes, with the corresponding slice of the per-sample weight assignment).  After
every transition count / mean / std are compared with the exact population
statistics of the consumed prefix (fractions.Fraction).
"""

from fractions import Fraction as Fr
import itertools
import math

import numpy as np

LEVEL = 'model_checking'
X64 = True
RULE = ('for each (observation structure, data set of n lattice samples with '
        'scale/offset in {1e-3,1,1e3} incl. a constant column, per-sample '
        'integer weight assignment or none): the full tree of compositions of '
        'n into consecutive batches, each batch with 1 leading axis or every '
        '2-axis factorisation, is walked with the real update(); every node is '
        'compared with exact prefix statistics; leaves additionally check '
        'normalize/denormalize. non-trivial = complete history with >= 2 '
        'batches; distinct = distinct (config, composition, shape choice)')
ASSUMPTIONS = [
    'reference: exact weighted population mean/std in fractions.Fraction',
    'tolerance 1e-9 relative to the data scale in float64 (1e-4 in the '
    'float32 tasks of the thorough tier)',
    'first batch always has positive total weight (as the property requires)',
]


def _structures():
  """name -> (template builder, leaf feature shapes)."""
  return {
      'arr1': [('', (1,), 'f')],
      'arr2': [('', (2,), 'f')],
      'arr3': [('', (3,), 'f')],
      'mat23': [('', (2, 3), 'f')],
      'dict2': [('a', (2,), 'f'), ('b', (1,), 'f')],
      'dict_int': [('x', (2,), 'f'), ('n', (1,), 'i')],
      # a float leaf narrower than the statistics dtype (float32 under x64)
      'dict_f32': [('x', (2,), 'f'), ('y', (1,), 'h')],
  }


def _dataset(struct, n, scale, seed):
  """Integer lattice data k[n, nfeat], exact Fractions x = off + scale*k."""
  leaves = _structures()[struct]
  nfeat = sum(int(np.prod(s)) for _, s, _ in leaves)
  rng = np.random.RandomState(100 * seed + n + 7 * nfeat)
  k = rng.randint(-9, 10, size=(n, nfeat))
  k[:, -1] = 4  # constant column (last feature of last float leaf or int leaf)
  if n >= 2:
    k[0, 0], k[1, 0] = -3, 5  # never constant in column 0
  sc = Fr(scale)
  off = sc * Fr(rng.randint(-2, 3))
  cols = []
  j = 0
  for name, shp, kind in leaves:
    m = int(np.prod(shp))
    if kind == 'i':
      cols.append([[Fr(int(v)) for v in row] for row in k[:, j:j + m]])
    else:
      cols.append([[off + sc * int(v) for v in row] for row in k[:, j:j + m]])
    j += m
  return leaves, cols  # cols[leaf][sample][feature] Fractions


def _prefix_stats(cols_leaf, w, i, smin, smax):
  """Exact (count, mean[], std[]) of the first i samples with weights w."""
  tot = sum(w[:i])
  m = len(cols_leaf[0])
  mean, std = [], []
  for f in range(m):
    mu = sum(w[s] * cols_leaf[s][f] for s in range(i)) / tot
    var = sum(w[s] * (cols_leaf[s][f] - mu) ** 2 for s in range(i)) / tot
    mean.append(mu)
    std.append(min(max(math.sqrt(float(var)), smin), smax))
  return tot, mean, std


def _shapes(k):
  out = [(k,)]
  for a in range(2, k):
    if k % a == 0:
      out.append((a, k // a))
  return out


class StatSystem:

  def __init__(self, struct, n, scale, weights, seed, smin=1e-6, smax=1e6,
               jit=False, f32=False):
    import jax
    import jax.numpy as jnp
    from brax.training.acme import running_statistics as rs
    self.jax, self.jnp, self.rs = jax, jnp, rs
    self.struct, self.n, self.scale, self.seed = struct, n, scale, seed
    self.smin, self.smax = smin, smax
    self.leaves, self.cols = _dataset(struct, n, scale, seed)
    self.w = list(weights) if weights is not None else None
    self.wfr = [Fr(x) for x in (self.w if self.w is not None else [1] * n)]
    self.tol = 1e-4 if f32 else 1e-9
    self.fdt = np.float32 if f32 else np.float64
    self.jit = jit
    self._jitted = {}
    self.fscale = float(abs(Fr(scale))) * 12

  def _tree(self, arrs):
    if len(self.leaves) == 1:
      return self.jnp.asarray(arrs[0])
    return {name: self.jnp.asarray(a) for (name, _, _), a in
            zip(self.leaves, arrs)}

  def _batch(self, lo, hi, shape):
    arrs = []
    for (name, shp, kind), col in zip(self.leaves, self.cols):
      a = np.array([[float(v) for v in col[s]] for s in range(lo, hi)])
      a = a.reshape(shape + shp)
      arrs.append(a.astype(np.int32 if kind == 'i' else
                           np.float32 if kind == 'h' else self.fdt))
    return self._tree(arrs)

  def init(self):
    tmpl = self._tree([np.zeros(shp, np.int32 if kind == 'i' else
                                np.float32 if kind == 'h' else self.fdt)
                       for _, shp, kind in self.leaves])
    return (self.rs.init_state(tmpl), 0)

  def enabled(self, state):
    _, i = state
    ops = []
    for k in range(1, self.n - i + 1):
      if i == 0 and sum(self.wfr[:k]) == 0:
        continue
      for shp in _shapes(k):
        ops.append((k, shp))
    return ops

  def _update(self, st, batch, w):
    kw = dict(std_min_value=self.smin, std_max_value=self.smax)
    if not self.jit:
      return self.rs.update(st, batch, weights=w, **kw)
    key = (self.jax.tree_util.tree_structure(batch),
           tuple(x.shape for x in self.jax.tree_util.tree_leaves(batch)),
           w is not None)
    if key not in self._jitted:
      self._jitted[key] = self.jax.jit(
          lambda s, b, ww: self.rs.update(s, b, weights=ww, **kw))
    return self._jitted[key](st, batch, w)

  def apply(self, state, op):
    st, i = state
    k, shp = op
    batch = self._batch(i, i + k, tuple(shp))
    w = None
    if self.w is not None:
      w = self.jnp.asarray(np.array(self.w[i:i + k], self.fdt).reshape(shp))
    try:
      nst = self._update(st, batch, w)
    except Exception as e:  # pylint: disable=broad-except
      return None, [('update-raises', 'update raised %r' % (e,))], ('raised',)
    problems = self.compare(nst, i + k)
    return (nst, i + k), problems, ('upd', i + k)

  def _leaf(self, tree, li):
    if len(self.leaves) == 1:
      return np.asarray(tree)
    return np.asarray(tree[self.leaves[li][0]])

  def compare(self, st, i):
    problems = []
    for li, (name, shp, kind) in enumerate(self.leaves):
      tot, mean, std = _prefix_stats(self.cols[li], self.wfr, i, self.smin,
                                     self.smax)
      cnt = float(np.asarray(st.count))
      if abs(cnt - float(tot)) > self.tol * (1 + float(tot)):
        problems.append(('count', 'count %r, exact %s after %d samples' %
                         (cnt, tot, i)))
      gm = self._leaf(st.mean, li).reshape(-1)
      gs = self._leaf(st.std, li).reshape(-1)
      fs = self.fscale if kind in 'fh' else 12.0
      # a float32 leaf carries float32-rounded data
      tolk = max(self.tol, 3e-7) if kind == 'h' else self.tol
      for f in range(len(mean)):
        if not abs(gm[f] - float(mean[f])) <= tolk * fs:
          problems.append(('mean', 'leaf %r feature %d: mean %r, exact %r '
                           'after %d samples' % (name, f, float(gm[f]),
                                                 float(mean[f]), i)))
        if not abs(gs[f] - std[f]) <= tolk * fs + 1e-12:
          problems.append(('std', 'leaf %r feature %d: std %r, exact %r '
                           'after %d samples' % (name, f, float(gs[f]), std[f],
                                                 i)))
    return problems[:3]

  def check_normalize(self, st):
    """normalize/denormalize on the final state with the whole data set."""
    rs, jnp = self.rs, self.jnp
    problems = []
    batch = self._batch(0, self.n, (self.n,))
    norm = rs.normalize(batch, st)
    back = rs.denormalize(norm, st)
    for li, (name, shp, kind) in enumerate(self.leaves):
      x = self._leaf(batch, li)
      nz = self._leaf(norm, li)
      bk = self._leaf(back, li)
      if kind == 'i':
        if nz.dtype != x.dtype or not np.array_equal(nz, x):
          problems.append(('nonfloat-normalize',
                           'integer leaf changed by normalize'))
        if bk.dtype != x.dtype or not np.array_equal(bk, x):
          problems.append(('nonfloat-denormalize',
                           'integer leaf changed by denormalize'))
        continue
      tot, mean, std = _prefix_stats(self.cols[li], self.wfr, self.n,
                                     self.smin, self.smax)
      tol = self.tol if kind == 'f' else max(self.tol, 3e-7)
      # compared after multiplying back by std: (x - mean) is what carries the
      # information; dividing by a clipped std of 1e-6 (constant column) would
      # only amplify round-off
      sd = np.array(std)
      want = x.reshape(self.n, -1) - np.array([float(m) for m in mean])
      err = np.max(np.abs(nz.reshape(self.n, -1) * sd - want)) / self.fscale
      if not err <= tol * 10:
        problems.append(('normalize', 'normalize(x)*std differs from x-mean by '
                         '%.3g of scale (leaf %r)' % (err, name)))
      err = np.max(np.abs(bk - x)) / self.fscale
      if not err <= tol * 10:
        problems.append(('roundtrip', 'denormalize(normalize(x)) differs by '
                         '%.3g of scale (leaf %r)' % (err, name)))
    # clipping of normalised values
    normc = rs.normalize(batch, st, max_abs_value=0.5)
    for li, (name, shp, kind) in enumerate(self.leaves):
      if kind in 'fh' and np.max(np.abs(self._leaf(normc, li))) > 0.5 + 1e-6:
        problems.append(('normalize-clip', 'max_abs_value not honoured'))
    return problems


def _walk(sys_, res, maxprob=20):
  """DFS over the whole composition tree (all nodes compared)."""
  key0 = dict(struct=sys_.struct, n=sys_.n, scale=str(sys_.scale),
              weights=sys_.w, seed=sys_.seed, smin=sys_.smin, smax=sys_.smax,
              jit=sys_.jit, f32=sys_.fdt is np.float32)
  final_states = []

  def visit(state, hist):
    res['states'] += 1
    if state[1] == sys_.n:
      res['paths'] += 1
      if len(hist) >= 2:
        res['nontrivial'] += 1
      final_states.append((state, hist))
      return
    for op in sys_.enabled(state):
      nxt, problems, outcome = sys_.apply(state, op)
      res['transitions'] += 1
      res['evaluations'] += 1
      if problems:
        if len(res['violations']) < maxprob:
          for k, what in problems[:1]:
            res['violations'].append(dict(
                key='C18:' + k, what=what,
                case=dict(cfg=key0, history=[list(map(_j, h)) for h in
                                             hist + [op]])))
        continue
      visit(nxt, hist + [op])

  visit(sys_.init(), [])
  # leaves: normalize/denormalize on first, middle, last complete history
  if final_states:
    for state, hist in (final_states[0], final_states[len(final_states) // 2],
                        final_states[-1]):
      for k, what in sys_.check_normalize(state[0]):
        res['violations'].append(dict(
            key='C18:' + k, what=what,
            case=dict(cfg=key0, history=[list(map(_j, h)) for h in hist],
                      normalize=True)))
      res['evaluations'] += 1
    res['samples'].append(dict(cfg=key0, example_history=[
        list(map(_j, h)) for h in final_states[len(final_states) // 2][1]]))
  return final_states


def _j(x):
  return list(x) if isinstance(x, tuple) else x


def _weight_assignments(n, full):
  if full:
    return [list(w) for w in itertools.product(range(5), repeat=n)
            if sum(w) > 0]
  pats = [None, [1] * n, [(2, 0, 3, 1, 4, 0, 1, 2, 3, 1)[i % 10] for i in
                          range(n)],
          [(1, 0, 0, 4, 0, 3, 0, 0, 1, 2)[i % 10] for i in range(n)]]
  return pats


def tasks(tier, seed):
  ts = []
  q = tier == 'quick'
  nmax = 7 if q else 9
  for struct in _structures():
    for scale in ('1/1000', '1', '1000'):
      n = nmax if struct in ('arr2', 'dict2') else nmax - 1
      for wi, w in enumerate(_weight_assignments(n, False)):
        ts.append(dict(name='%s n=%d s=%s w%d' % (struct, n, scale, wi),
                       cfg=dict(struct=struct, n=n, scale=scale, weights=w),
                       cost=3 ** n))
  # exhaustive weights
  for n in (1, 2, 3, 4):
    allw = _weight_assignments(n, True)
    chunks = [allw[i::8] for i in range(8)] if n == 4 else [allw]
    for ci, ch in enumerate(chunks):
      if ch:
        ts.append(dict(name='allweights n=%d c%d' % (n, ci), kind='allw', n=n,
                       ws=ch, cost=len(ch) * 4 ** n))
  # clip bounds exercised, jitted variants
  for struct in ('arr2', 'dict_int'):
    ts.append(dict(name='clip %s' % struct,
                   cfg=dict(struct=struct, n=5, scale='1000', weights=None,
                            smin=1e-2, smax=10.0), cost=300))
    ts.append(dict(name='jit %s' % struct,
                   cfg=dict(struct=struct, n=6, scale='1', weights=
                            [2, 0, 3, 1, 4, 0], jit=True), cost=5000))
  if not q:
    for struct in ('arr2', 'dict2'):
      for scale in ('1/1000', '1', '1000'):
        ts.append(dict(name='f32 %s %s' % (struct, scale),
                       cfg=dict(struct=struct, n=7, scale=scale, weights=None,
                                f32=True),
                       env={'JAX_ENABLE_X64': '0'}, cost=3 ** 7))
  return ts


def run_task(task):
  res = dict(evaluations=0, nontrivial=0, states=0, transitions=0, paths=0,
             violations=[], samples=[], outcomes=[], extra={})
  seed = task['seed']
  if task.get('kind') == 'allw':
    for w in task['ws']:
      for scale in ('1',) if task['n'] == 4 else ('1/1000', '1', '1000'):
        s = StatSystem('arr2', task['n'], Fr(scale), w, seed)
        _walk(s, res)
        # weight w == w repetitions: compare final state with the expanded
        # unweighted data set presented in one batch
        res['outcomes'].append(str(w))
    res['samples'] = res['samples'][:2]
    return res
  cfg = dict(task['cfg'])
  cfg['scale'] = Fr(cfg['scale'])
  s = StatSystem(seed=seed, **cfg)
  finals = _walk(s, res)
  res['outcomes'] = ['%s:%d' % (task['name'], len(finals))]
  return res


def vacuous(tot, tier):
  if tot['paths'] < 100:
    return 'fewer than 100 complete histories'
  return None


def replay(rec):
  c = rec['case']
  cfg = dict(c['cfg'])
  cfg['scale'] = Fr(cfg['scale'])
  s = StatSystem(**cfg)
  state = s.init()
  lines = []
  ok = True
  for op in c['history']:
    op = (op[0], tuple(op[1]))
    nxt, problems, _ = s.apply(state, op)
    lines.append('update %s -> %s' % (op, problems or 'agrees'))
    if problems:
      ok = False
      break
    state = nxt
  if ok and c.get('normalize'):
    p = s.check_normalize(state[0])
    lines.append('normalize/denormalize -> %s' % (p or 'agrees'))
    ok = not p
  return ok, 'cfg=%s\n%s' % (c['cfg'], '\n'.join(lines))


def determinism_case():
  s = StatSystem('dict2', 5, Fr(1000), [2, 0, 3, 1, 4], 0)
  st = s.init()
  out = []
  for op in [(2, (2,)), (3, (3,))]:
    st, p, o = s.apply(st, op)
    out.append([np.asarray(st[0].count).tolist(),
                np.asarray(st[0].mean['a']).tolist(),
                np.asarray(st[0].std['b']).tolist(), p])
  return out
