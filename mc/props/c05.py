"""C05 representation independence: rigid-transform equivariance, sibling
order, disconnected components."""

import itertools

import numpy as np

from mc import phys, pipes, scope
from mc.mjref import quat_to_mat

LEVEL = 'exploration'
X64 = True
RULE = ('(a) every free-rooted contact-free model of the C04 scope (all shapes '
        'x link-type strings with free roots, <= 3 links) x 4 states x group '
        'alphabet {24 cube rotations + 3 generic} x {0, generic translation} x '
        '{1,5} steps x 3 pipelines: step(g.s) = g.step(s). (b) every shape '
        'with siblings (3 links; 4 in thorough) x ALL permutations of every '
        'sibling group: per-link results are permuted only. (c) all ordered '
        'pairs of a model sub-alphabet merged into one document vs each model '
        'alone. non-trivial = non-identity group element / permutation / '
        'pair of different models; distinct = distinct (model, state, g, '
        'pipeline) tuples')
ASSUMPTIONS = [
    'reported joint coordinates are compared at 10x the tolerance (arccos '
    'conditioning of kinematics.inverse)',
    'tolerance 1e-8*(1+|x|) after 1 step, 1e-6 after 5 steps (error growth '
    'of stiff joints); runs with |qd| > 1e4 are counted, not compared',
    'generalized pipeline with exact mass-matrix inverse '
    '(matrix_inv_iterations=0)',
]


def qmul(a, b):
  w1, x1, y1, z1 = a
  w2, x2, y2, z2 = b
  return np.array([w1 * w2 - x1 * x2 - y1 * y2 - z1 * z2,
                   w1 * x2 + x1 * w2 + y1 * z2 - z1 * y2,
                   w1 * y2 - x1 * z2 + y1 * w2 + z1 * x2,
                   w1 * z2 + x1 * y2 - y1 * x2 + z1 * w2])


_F = {}


def _roll(pipe):
  """f(sys, gravity, q, qd, ctrl) -> results after 1 and 5 steps."""
  import jax
  if pipe not in _F:
    p = pipes.module(pipe)

    def f(sys, g, q, qd, c):
      sys = sys.replace(gravity=g)
      s1 = p.step(sys, p.init(sys, q, qd), c)

      def body(s, _):
        return p.step(sys, s, c), None
      s5 = jax.lax.scan(body, s1, (), length=4)[0]
      pack = lambda s: (s.x.pos, s.x.rot, s.xd.vel, s.xd.ang, s.q, s.qd)
      return pack(s1) + pack(s5)
    _F[pipe] = jax.jit(jax.vmap(f, in_axes=(None, 0, 0, 0, 0)))
  return _F[pipe]


def _run(pipe, sys, G, Q, D, C, ch=128):
  f = _roll(pipe)
  outs = []
  for s in range(0, len(Q), ch):
    a = [x[s:s + ch] for x in (G, Q, D, C)]
    m = len(a[0])
    a = pipes.pad(a, ch)
    o = f(phys.strip(sys), *a)
    outs.append([np.asarray(x)[:m] for x in o])
  return [np.concatenate([o[i] for o in outs]) for i in range(12)]


def _group(seed, tier):
  rng = scope.rng_for(seed, 'c05group')
  rots = scope.cube_rotations() + [scope.generic_quat(rng) for _ in range(3)]
  if tier == 'quick':
    rots = rots[1::4] + rots[-2:]
  ts = [np.zeros(3), rng.uniform(-3, 3, 3)]
  return [(r, t) for r in rots for t in ts][1:]   # drop the identity


def _root_layout(spec):
  """[(qadr, dadr)] of free roots, and masks of non-root coordinates."""
  qa = da = 0
  roots = []
  for l in spec['links']:
    if l['kind'] == 'F':
      roots.append((qa, da))
      qa += 7
      da += 6
    else:
      qa += len(l['kind'])
      da += len(l['kind'])
  return roots


def _apply_g(spec, g, q, qd):
  R, t = quat_to_mat(g[0]), g[1]
  q, qd = q.copy(), qd.copy()
  for qa, da in _root_layout(spec):
    q[qa:qa + 3] = R @ q[qa:qa + 3] + t
    q[qa + 3:qa + 7] = qmul(g[0], q[qa + 3:qa + 7])
    qd[da:da + 3] = R @ qd[da:da + 3]
  return q, qd


def _quat_close(a, b):
  return np.minimum(np.abs(a - b).max(-1), np.abs(a + b).max(-1))


def check_equivariance(spec, pipe, tier, seed, res):
  from mc.props import c04
  sys, mj = scope.load(spec)
  rng = scope.rng_for(seed, 'c05init', str(scope.skeleton(spec)))
  inits = c04._init_states(spec, rng)
  if tier == 'quick':
    inits = inits[:3]
  nu = len(spec.get('actuators', []))
  G = _group(seed, tier)
  g0 = np.asarray(sys.gravity)
  rows = []
  for (q, d) in inits:
    c = rng.uniform(-1, 1, nu)
    rows.append((None, q, d, c))
    for g in G:
      q2, d2 = _apply_g(spec, g, q, d)
      rows.append((g, q2, d2, c))
  Gv = np.array([g0 if r[0] is None else quat_to_mat(r[0][0]) @ g0
                 for r in rows])
  out = _run(pipe, sys, Gv, np.array([r[1] for r in rows]),
             np.array([r[2] for r in rows]), np.array([r[3] for r in rows]
                                                       ).reshape(len(rows), nu))
  roots = _root_layout(spec)
  per = 1 + len(G)
  nq, nv = scope.nq_nv(spec)
  for si in range(len(inits)):
    b = si * per
    for gi, g in enumerate(G):
      k = b + 1 + gi
      R, t = quat_to_mat(g[0]), g[1]
      res['evaluations'] += 1
      res['nontrivial'] += 1
      for steps, o in ((1, 0), (5, 6)):
        pos, rot, vel, ang, q, qd = [out[o + j] for j in range(6)]
        if not np.isfinite(qd[b]).all() or np.abs(qd[b]).max() > 1e4 or \
            not np.isfinite(qd[k]).all():
          res['extra']['diverged'] = res['extra'].get('diverged', 0) + 1
          continue
        tol = 1e-8 if steps == 1 else 1e-6
        e = {}
        e['link-position'] = np.abs(pos[k] - (pos[b] @ R.T + t)).max() / (
            1 + np.abs(pos[k]).max())
        e['link-rotation'] = _quat_close(
            rot[k], np.array([qmul(g[0], r) for r in rot[b]])).max()
        e['link-velocity'] = np.abs(vel[k] - vel[b] @ R.T).max() / (
            1 + np.abs(vel[b]).max())
        e['link-angular-velocity'] = np.abs(ang[k] - ang[b] @ R.T).max() / (
            1 + np.abs(ang[b]).max())
        qe, de = q[b].copy(), qd[b].copy()
        mask = np.ones(nq, bool)
        for qa, da in roots:
          qe[qa:qa + 3] = R @ qe[qa:qa + 3] + t
          de[da:da + 3] = R @ de[da:da + 3]
          mask[qa + 3:qa + 7] = False
          e['root-rotation'] = max(e.get('root-rotation', 0), float(
              _quat_close(q[k][qa + 3:qa + 7], qmul(g[0], q[b][qa + 3:qa + 7]))))
        # joint angles reported by the maximal-coordinate pipelines go through
        # arccos/arcsin (conditioning sqrt(eps) ~ 1.5e-8): compared at 1e-7
        e['joint-coordinates'] = 0.1 * np.abs(q[k][mask] - qe[mask]).max() / (
            1 + np.abs(qe).max())
        e['joint-velocities'] = np.abs(qd[k] - de).max() / (1 + np.abs(de).max())
        bad = {kk: v for kk, v in e.items() if not v <= tol}
        if bad:
          kk = sorted(bad, key=lambda z: -bad[z])[0]
          res['violations'].append(dict(
              key='C05:equivariance:%s' % pipe,
              what='%s: %s after %d step(s) breaks equivariance by %.3g under '
              'rotation %s translation %s (kinds=%s)' % (
                  pipe, kk, steps, bad[kk], np.round(g[0], 3).tolist(),
                  np.round(t, 2).tolist(), [l['kind'] for l in spec['links']]),
              case=dict(kind='equivariance', spec=spec, pipe=pipe, state=si,
                        g=[g[0].tolist(), g[1].tolist()], seed=seed,
                        tier=tier)))
          return


# ------------------------------------------------------------ sibling order


def permute_siblings(spec, perm_of):
  """Re-linearises the spec with children of each node reordered.
  perm_of: dict parent -> tuple order (indices into that parent's children).
  Returns (new spec, old->new link index map)."""
  links = spec['links']
  ch = {}
  for i, l in enumerate(links):
    ch.setdefault(l['parent'], []).append(i)
  order = []

  def visit(p):
    kids = ch.get(p, [])
    if p in perm_of:
      kids = [kids[j] for j in perm_of[p]]
    for k in kids:
      order.append(k)
      visit(k)
  visit(-1)
  new_index = {old: new for new, old in enumerate(order)}
  nl = []
  for old in order:
    l = dict(links[old])
    l['parent'] = -1 if l['parent'] < 0 else new_index[l['parent']]
    nl.append(l)
  s = dict(spec)
  s['links'] = nl
  acts = []
  for a in spec.get('actuators', []):
    a = dict(a)
    a['joint'] = [new_index[a['joint'][0]], a['joint'][1]]
    acts.append(a)
  s['actuators'] = acts
  return s, new_index


def _blocks(spec):
  qa = da = 0
  out = []
  for l in spec['links']:
    wq = 7 if l['kind'] == 'F' else len(l['kind'])
    wd = 6 if l['kind'] == 'F' else len(l['kind'])
    out.append((qa, wq, da, wd))
    qa += wq
    da += wd
  return out


def _permute_state(spec, spec2, idx, q, qd):
  b1, b2 = _blocks(spec), _blocks(spec2)
  q2, d2 = np.zeros_like(q), np.zeros_like(qd)
  for old, new in idx.items():
    qa, wq, da, wd = b1[old]
    qb, _, db, _ = b2[new]
    q2[qb:qb + wq] = q[qa:qa + wq]
    d2[db:db + wd] = qd[da:da + wd]
  return q2, d2


def check_order(spec, pipe, tier, seed, res):
  links = spec['links']
  ch = {}
  for i, l in enumerate(links):
    ch.setdefault(l['parent'], []).append(i)
  groups = {p: k for p, k in ch.items() if len(k) >= 2}
  if not groups:
    return
  perms = [dict(zip(groups, combo)) for combo in itertools.product(
      *[list(itertools.permutations(range(len(k)))) for k in groups.values()])]
  perms = perms[1:]                      # drop the identity
  if len(perms) > 6:
    # several sibling groups: every permutation of each group alone plus the
    # all-reversed one (the full product is explored in the thorough tier)
    if tier == 'quick':
      perms = perms[:5] + perms[-1:]
  sys, _ = scope.load(spec)
  rng = scope.rng_for(seed, 'c05ord', str(scope.skeleton(spec)))
  from mc.props import c04
  inits = c04._init_states(spec, rng)[1:3]
  nu = len(spec.get('actuators', []))
  # actuator order is kept (ctrl vector unchanged)
  C = np.array([rng.uniform(-1, 1, nu) for _ in inits]).reshape(len(inits), nu)
  g0 = np.tile(np.asarray(sys.gravity), (len(inits), 1))
  base = _run(pipe, sys, g0, np.array([q for q, _ in inits]),
              np.array([d for _, d in inits]), C)
  for perm in perms:
    spec2, idx = permute_siblings(spec, perm)
    sys2, _ = scope.load(spec2)
    QD = [_permute_state(spec, spec2, idx, q, d) for q, d in inits]
    out = _run(pipe, sys2, g0, np.array([x[0] for x in QD]),
               np.array([x[1] for x in QD]), C)
    new = [idx[o] for o in range(len(links))]
    for si in range(len(inits)):
      res['evaluations'] += 1
      res['nontrivial'] += 1
      for steps, o in ((1, 0), (5, 6)):
        if not np.isfinite(base[o + 5][si]).all() or np.abs(
            base[o + 5][si]).max() > 1e4:
          continue
        tol = 1e-8 if steps == 1 else 1e-6
        errs = []
        for j in range(4):
          a, b = base[o + j][si], out[o + j][si][new]
          errs.append((_quat_close(a, b).max() if j == 1 else
                       np.abs(a - b).max()) / (1 + np.abs(a).max()))
        q1, d1 = _permute_state(spec, spec2, idx, base[o + 4][si],
                                base[o + 5][si])
        errs.append(0.1 * np.abs(q1 - out[o + 4][si]).max() / (
            1 + np.abs(q1).max())
                    if not any(l['kind'] == 'F' for l in links) else 0.0)
        errs.append(np.abs(d1 - out[o + 5][si]).max() / (1 + np.abs(d1).max()))
        if not max(errs) <= tol:
          res['violations'].append(dict(
              key='C05:sibling-order:%s' % pipe,
              what='%s: results differ by %.3g after %d step(s) when siblings '
              'are listed in order %s (kinds=%s parents=%s)' % (
                  pipe, max(errs), steps, perm, [l['kind'] for l in links],
                  [l['parent'] for l in links]),
              case=dict(kind='order', spec=spec, pipe=pipe, seed=seed,
                        tier=tier)))
          return


# --------------------------------------------------------------- components


def _merge(a, b):
  la = [dict(l) for l in a['links']]
  off = len(la)
  lb = []
  for l in b['links']:
    l = dict(l)
    if l['parent'] >= 0:
      l['parent'] += off
    lb.append(l)
  s = dict(a)
  s['links'] = la + lb
  acts = [dict(x) for x in a.get('actuators', [])]
  for x in b.get('actuators', []):
    x = dict(x)
    x['joint'] = [x['joint'][0] + off, x['joint'][1]]
    acts.append(x)
  s['actuators'] = acts
  return s


def _component_models(seed, tier):
  ms = []
  kinds = [('F',), ('H',), ('SH',), ('F', 'HH'), ('S', 'H'), ('HS',)]
  if tier == 'quick':
    kinds = kinds[:4]
  for ks in kinds:
    rng = scope.rng_for(seed, 'c05comp', ks)
    links = [phys.tmpl(k, i - 1, rng, 1 + (i % 2), passive=3)
             for i, k in enumerate(ks)]
    s = phys.spec_of(links)
    joints = [(i, j) for i, l in enumerate(links) if l['kind'] != 'F'
              for j in range(len(l['kind']))]
    s['actuators'] = [dict(joint=list(joints[0]), kind='motor', gear=4.0)] \
        if joints else []
    s['option'] = dict(timestep=0.002)
    ms.append(s)
  return ms


def check_components(a, b, pipe, tier, seed, res):
  m = _merge(a, b)
  sa, _ = scope.load(a)
  sb, _ = scope.load(b)
  sm, _ = scope.load(m)
  rng = scope.rng_for(seed, 'c05compstate', str(scope.skeleton(m)))
  from mc.props import c04
  ia, ib = c04._init_states(a, rng)[1:3], c04._init_states(b, rng)[1:3]
  nua, nub = len(a.get('actuators', [])), len(b.get('actuators', []))
  ca = np.array([rng.uniform(-1, 1, nua) for _ in ia]).reshape(len(ia), nua)
  cb = np.array([rng.uniform(-1, 1, nub) for _ in ib]).reshape(len(ib), nub)
  g = np.tile(np.asarray(sm.gravity), (len(ia), 1))
  oa = _run(pipe, sa, g, np.array([x[0] for x in ia]),
            np.array([x[1] for x in ia]), ca)
  ob = _run(pipe, sb, g, np.array([x[0] for x in ib]),
            np.array([x[1] for x in ib]), cb)
  om = _run(pipe, sm, g,
            np.array([np.concatenate([x[0], y[0]]) for x, y in zip(ia, ib)]),
            np.array([np.concatenate([x[1], y[1]]) for x, y in zip(ia, ib)]),
            np.concatenate([ca, cb], axis=1))
  na = len(a['links'])
  for si in range(len(ia)):
    res['evaluations'] += 1
    res['nontrivial'] += 1
    for steps, o in ((1, 0), (5, 6)):
      if np.abs(om[o + 5][si]).max() > 1e4 or not np.isfinite(
          om[o + 5][si]).all():
        continue
      tol = 1e-8 if steps == 1 else 1e-6
      errs = []
      for j in range(6):
        alone = np.concatenate([oa[o + j][si], ob[o + j][si]])
        merged = om[o + j][si]
        if j == 1:
          errs.append(_quat_close(alone, merged).max())
        elif j == 4 and any(l['kind'] == 'F' for l in m['links']):
          continue
        else:
          errs.append((0.1 if j == 4 else 1.0) * np.abs(alone - merged).max() /
                      (1 + np.abs(alone).max()))
      if not max(errs) <= tol:
        res['violations'].append(dict(
            key='C05:components:%s' % pipe,
            what='%s: a component evolves differently (%.3g after %d step(s)) '
            'when merged with a disconnected one: kinds %s + %s' % (
                pipe, max(errs), steps, [l['kind'] for l in a['links']],
                [l['kind'] for l in b['links']]),
            case=dict(kind='components', a=a, b=b, pipe=pipe, seed=seed,
                      tier=tier)))
        return


def _order_models(seed, tier):
  out = []
  shapes = [sh for sh in scope.shapes(3) + (scope.shapes(4) if tier != 'quick'
                                            else [])
            if len(sh) != len(set(sh))]
  for sh in shapes:
    for a in range(2 if tier == 'quick' else 4):
      rng = scope.rng_for(seed, 'c05ordm', sh, a)
      links = []
      pool = ['H', 'S', 'HH', 'SH', 'SS', 'HHH']
      for i, p in enumerate(sh):
        kind = 'F' if (p == -1 and rng.rand() < 0.4) else pool[
            (i + a + int(rng.randint(2))) % len(pool)]
        links.append(phys.tmpl(kind, p, rng, 1 + i % 3, passive=3))
      s = phys.spec_of(links)
      s['actuators'] = []
      s['option'] = dict(timestep=0.002)
      out.append(s)
  # level-grouping patterns of scan.tree: three roots with uneven child
  # counts (2/0/1, 1/0/2, ...); single-joint links
  stars = [sh for sh in phys.star_forests(6) if sh.count(-1) == 3 and
           len(sh) == 6]
  if tier == 'quick':
    stars = [sh for sh in stars if sh in ((-1, 0, 0, -1, -1, 4),
                                          (-1, 0, -1, -1, 3, 3))]
  for s in phys.level_pattern_models(seed, stars, tag='c05lvl'):
    s['actuators'] = []
    s['option'] = dict(timestep=0.002)
    out.append(s)
  return out


def tasks(tier, seed):
  from mc.props import c04
  ts = []
  for k, g in phys.group_by_skeleton(c04._free_models(tier, seed)):
    for pipe in pipes.NAMES:
      ts.append(dict(name='equiv %s %s' % (pipe, k[:2]), kind='equiv',
                     specs=g, pipe=pipe, cost=60))
  for i, s in enumerate(_order_models(seed, tier)):
    for pipe in pipes.NAMES:
      ts.append(dict(name='order %s %d' % (pipe, i), kind='order', specs=[s],
                     pipe=pipe, cost=60))
  ms = _component_models(seed, tier)
  for i, j in itertools.product(range(len(ms)), repeat=2):
    for pipe in pipes.NAMES:
      ts.append(dict(name='comp %s %d+%d' % (pipe, i, j), kind='comp', a=i,
                     b=j, pipe=pipe, cost=45))
  return ts


def run_task(task):
  res = dict(evaluations=0, nontrivial=0, violations=[], samples=[],
             outcomes=[], extra={})
  tier, seed, pipe = task['tier'], task['seed'], task['pipe']
  if task['kind'] == 'equiv':
    for spec in task['specs']:
      check_equivariance(spec, pipe, tier, seed, res)
    res['samples'].append(dict(kind='equivariance', pipe=pipe,
                               model=phys.describe(task['specs'][0])))
  elif task['kind'] == 'order':
    for spec in task['specs']:
      check_order(spec, pipe, tier, seed, res)
    res['samples'].append(dict(kind='sibling order', pipe=pipe,
                               model=phys.describe(task['specs'][0])))
  else:
    ms = _component_models(seed, tier)
    check_components(ms[task['a']], ms[task['b']], pipe, tier, seed, res)
    res['samples'].append(dict(kind='components', pipe=pipe, a=task['a'],
                               b=task['b']))
  res['outcomes'] = [task['name']]
  return res


def replay(rec):
  c = rec['case']
  res = dict(evaluations=0, nontrivial=0, violations=[], extra={})
  if c['kind'] == 'equivariance':
    check_equivariance(c['spec'], c['pipe'], c['tier'], c['seed'], res)
  elif c['kind'] == 'order':
    check_order(c['spec'], c['pipe'], c['tier'], c['seed'], res)
  else:
    check_components(c['a'], c['b'], c['pipe'], c['tier'], c['seed'], res)
  return (not res['violations']), '\n'.join(v['what'] for v in
                                            res['violations']) or 'holds'
