"""C17 replay queues: explicit-state exploration of the real queue classes.

Every transition is one call of the real public API (insert / sample / size)
compared with a list-based reference model.
"""

import itertools

import numpy as np

from mc import seqx

LEVEL = 'model_checking'
XLA_FLAGS = '--xla_force_host_platform_device_count=4'
X64 = False
RULE = ('all operation sequences over {insert k (1<=k<=N+1), sample} up to the '
        'tier depth for every (capacity N, sample batch B, mode, wrapper) '
        'configuration, as a DFS tree with shared prefixes on the real '
        'Queue/UniformSamplingQueue/PmapWrapper/PjitWrapper objects, then BFS '
        'closure of the canonical state graph; a history is non-trivial when '
        'it contains an overflowing insert (eviction) or a sample after an '
        'insert; distinct = distinct operation sequences (tree leaves) that are '
        'non-trivial')
ASSUMPTIONS = [
    'reference model: python list + cursor (mc/props/c17.py:Ref); second '
    'opinion: tla/ReplayQueue.tla explored completely by TLC (invariants '
    'Fifo/CursorOk/OutOk) and every edge of its dumped state graph replayed '
    'against the real Queue',
    'canonical form (held count, cursor, host guard) is sound by data '
    'independence; cross-checked by bisimulation over the full DFS tree',
    'sampling an empty UniformSamplingQueue is not enabled (unguarded by the '
    'code; vacuous under the statement)',
    'uniform queue: only membership, determinism in the key and key advance '
    'are required; the support of the sampler is reported, not required',
]


class Ref:
  """Boring reference: list of held records, read cursor."""

  def __init__(self, cap, batch, mode):
    self.cap, self.batch, self.mode = cap, batch, mode
    self.held = []
    self.cursor = 0

  def copy(self):
    r = Ref(self.cap, self.batch, self.mode)
    r.held = list(self.held)
    r.cursor = self.cursor
    return r

  def can_insert(self, k):
    return k <= self.cap

  def insert(self, recs):
    self.held += list(recs)
    e = max(0, len(self.held) - self.cap)
    self.held = self.held[e:]
    self.cursor = max(0, self.cursor - e)

  def available(self):
    if self.mode == 'fifo':
      return len(self.held) - self.cursor
    return len(self.held)

  def can_sample(self):
    return self.available() >= self.batch

  def sample(self):
    n = len(self.held)
    if self.mode == 'fifo':
      out = self.held[self.cursor:self.cursor + self.batch]
      self.cursor += self.batch
    else:
      out = [self.held[(self.cursor + i) % n] for i in range(self.batch)]
      self.cursor = (self.cursor + self.batch) % n
    return out

  def size(self):
    return self.available()


class QueueSystem:
  """Real queue object(s) + per-shard reference models.

  state = (buffer_state pytree, host_size, [Ref per shard], next_record_id)
  """

  def __init__(self, cap, batch, mode, wrapper='plain', shards=1, jit=True,
               pytree=False, nkeys=1):
    import jax
    import jax.numpy as jnp
    from brax.training import replay_buffers as rb
    self.jax, self.jnp, self.rb = jax, jnp, rb
    self.cap, self.batch, self.mode = cap, batch, mode
    self.wrapper, self.shards, self.jit, self.pytree = wrapper, shards, jit, pytree
    self.nkeys = nkeys
    dummy = ({'id': jnp.zeros((), jnp.float32), 'v': jnp.zeros((2,), jnp.float32)}
             if pytree else jnp.zeros((), jnp.float32))
    if mode == 'uniform':
      q = rb.UniformSamplingQueue(cap, dummy, batch)
    else:
      q = rb.Queue(cap, dummy, batch, cyclic=(mode == 'cyclic'))
    self.inner = q
    if jit and wrapper == 'plain':
      q.insert_internal = jax.jit(q.insert_internal)
      q.sample_internal = jax.jit(q.sample_internal)
    if wrapper == 'plain':
      self.q = q
    elif wrapper == 'pmap':
      self.q = rb.PmapWrapper(q, local_device_count=shards)
    elif wrapper == 'pjit':
      devs = np.array(jax.devices()[:shards])
      mesh = jax.sharding.Mesh(devs, ('x',))
      self.q = rb.PjitWrapper(q, mesh, ('x',))
    else:
      raise ValueError(wrapper)
    self.support = {}

  # -- helpers
  def _records(self, first, k):
    ids = np.arange(first, first + k, dtype=np.float32)
    if self.pytree:
      return {'id': self.jnp.asarray(ids),
              'v': self.jnp.asarray(np.stack([2 * ids, 2 * ids + 1], 1))}
    return self.jnp.asarray(ids)

  def _ids(self, batch):
    if self.pytree:
      ids = np.asarray(batch['id'])
      v = np.asarray(batch['v'])
      ok = (v.shape == (len(ids), 2) and np.array_equal(v[:, 0], 2 * ids) and
            np.array_equal(v[:, 1], 2 * ids + 1))
      return [int(i) for i in ids], ok
    return [int(i) for i in np.asarray(batch)], True

  def _held_impl(self, bs):
    """Held records read from data[:insert_position], per shard."""
    data = np.asarray(bs.data)
    ip = np.asarray(bs.insert_position)
    sp = np.asarray(bs.sample_position)
    if self.wrapper == 'plain':
      data, ip, sp = data[None], ip[None], sp[None]
    return [[int(x) for x in data[s, :int(ip[s]), 0]] for s in
            range(len(ip))], [int(x) for x in ip], [int(x) for x in sp]

  def init(self):
    self.inner._size = 0
    bs = self.q.init(self.jax.random.PRNGKey(0))
    refs = [Ref(self.cap, self.batch, 'fifo' if self.mode == 'uniform'
                else self.mode) for _ in range(self.shards)]
    # record ids start at 1: an all-zero storage row (never inserted) can then
    # never be mistaken for a held record
    return (bs, 0, refs, 1)

  def enabled(self, state):
    ops = [('insert', k) for k in range(1, self.cap + 2)]
    bs, hs, refs, nxt = state
    if self.mode == 'uniform' and len(refs[0].held) == 0:
      return ops
    return ops + [('sample',)]

  def canon(self, state):
    bs, hs, refs, nxt = state
    held, ip, sp = self._held_impl(bs)
    ranks = tuple(tuple(int(x - (nxt - 1)) for x in h) for h in held)
    return (tuple(ip), tuple(sp), hs, ranks,
            tuple((len(r.held), r.cursor) for r in refs))

  def outcome_class(self, outcome):
    # outcomes differ by record labels; their class is (kind, length)
    return (outcome[0], len(outcome[1]) if len(outcome) > 1 and
            isinstance(outcome[1], tuple) else None)

  def _compare_state(self, bs, refs, problems, where):
    held, ip, sp = self._held_impl(bs)
    for s, r in enumerate(refs):
      if held[s] != r.held:
        problems.append(('held-records',
                         '%s: shard %d holds %s, reference %s' %
                         (where, s, held[s], r.held)))
    try:
      size = int(self.q.size(bs))
    except Exception as e:  # pylint: disable=broad-except
      problems.append(('size-raises', '%s: size() raised %r' % (where, e)))
      return
    if self.mode == 'uniform':
      want = sum(len(r.held) for r in refs)
    else:
      want = sum(r.size() for r in refs)
    if size != want:
      problems.append(('size', '%s: size() = %d, reference %d' %
                       (where, size, want)))

  def apply(self, state, op):
    bs, hs, refs, nxt = state
    self.inner._size = hs
    problems = []
    D = self.shards
    if op[0] == 'insert':
      k = op[1]
      recs = self._records(nxt, k * D)
      if not refs[0].can_insert(k):
        try:
          self.q.insert(bs, recs)
          problems.append(('refusal', 'insert of %d > capacity %d accepted' %
                           (k, self.cap)))
        except ValueError:
          pass
        if self.inner._size != hs:
          problems.append(('refusal-state', 'refused insert changed host size'))
        return None, problems, ('insert-refused', k)
      try:
        nbs = self.q.insert(bs, recs)
      except Exception as e:  # pylint: disable=broad-except
        return None, [('insert-raises', 'insert(%d) raised %r' % (k, e))], (
            'insert-raised', k)
      nrefs = [r.copy() for r in refs]
      ids = list(range(nxt, nxt + k * D))
      for s in range(D):
        nrefs[s].insert(ids[s::D])
      self._compare_state(nbs, nrefs, problems, 'after insert %d' % k)
      return (nbs, self.inner._size, nrefs, nxt + k * D), problems, (
          'insert', k)
    # sample
    if self.mode == 'uniform':
      return self._apply_uniform(state, problems)
    if not refs[0].can_sample():
      try:
        self.q.sample(bs)
        problems.append(('refusal',
                         'sample of %d accepted with %d available' %
                         (self.batch, refs[0].available())))
      except ValueError:
        pass
      if self.inner._size != hs:
        problems.append(('refusal-state', 'refused sample changed host size'))
      return None, problems, ('sample-refused',)
    try:
      nbs, batch = self.q.sample(bs)
    except Exception as e:  # pylint: disable=broad-except
      return None, [('sample-raises', 'sample raised %r with %d available' %
                     (e, refs[0].available()))], ('sample-raised',)
    got, ok = self._ids(batch)
    if not ok:
      problems.append(('record-integrity', 'record fields do not match id'))
    nrefs = [r.copy() for r in refs]
    per = [r.sample() for r in nrefs]
    want = [per[s][i] for i in range(self.batch) for s in range(D)]
    if got != want:
      problems.append(('sample-batch', 'sample returned %s, reference %s' %
                       (got, want)))
    self._compare_state(nbs, nrefs, problems, 'after sample')
    return (nbs, self.inner._size, nrefs, nxt), problems, ('sample',
                                                           tuple(got))

  def _apply_uniform(self, state, problems):
    bs, hs, refs, nxt = state
    D = self.shards
    try:
      nbs, batch = self.q.sample(bs)
      nbs2, batch2 = self.q.sample(bs)
    except Exception as e:  # pylint: disable=broad-except
      return None, [('sample-raises', 'uniform sample raised %r' % (e,))], (
          'sample-raised',)
    got, ok = self._ids(batch)
    got2, _ = self._ids(batch2)
    if not ok:
      problems.append(('record-integrity', 'record fields do not match id'))
    if got != got2 or not np.array_equal(np.asarray(nbs.key),
                                         np.asarray(nbs2.key)):
      problems.append(('uniform-determinism',
                       'same state gave %s then %s' % (got, got2)))
    if len(got) != self.batch * D:
      problems.append(('sample-batch', 'uniform batch has %d records, want %d'
                       % (len(got), self.batch * D)))
    for j, g in enumerate(got):
      s = j % D
      if g not in refs[s].held:
        problems.append(('uniform-membership',
                         'returned record %d (slot %d, shard %d) not held %s' %
                         (g, j, s, refs[s].held)))
        break
    if np.array_equal(np.asarray(nbs.key), np.asarray(bs.key)):
      problems.append(('uniform-key', 'key did not advance'))
    self._compare_state(nbs, refs, problems, 'after uniform sample')
    # support statistic: ranks (age from newest) seen per held count
    h = len(refs[0].held)
    sup = self.support.setdefault(h, set())
    for j, g in enumerate(got):
      if g in refs[j % D].held:
        sup.add(refs[j % D].held.index(g))
    return (nbs, hs, [r.copy() for r in refs], nxt), problems, (
        'usample', tuple(got))


def _configs(tier):
  """(cfg dict, dfs depth, bfs depth) simplest first."""
  out = []
  q = tier == 'quick'
  for cap in range(1, 6):
    for batch in range(1, 5):
      for mode in ('fifo', 'cyclic'):
        d = 5 if q else (7 if cap <= 4 else 6)
        out.append((dict(cap=cap, batch=batch, mode=mode), d, 14))
      out.append((dict(cap=cap, batch=batch, mode='uniform'),
                  4 if q else 5, 10))
  # eager (un-jitted) execution of the same classes
  for cap in (1, 2, 3):
    for batch in (1, 2):
      for mode in ('fifo', 'cyclic', 'uniform'):
        out.append((dict(cap=cap, batch=batch, mode=mode, jit=False),
                    3 if q else 4, 0))
  # pytree records
  for cap, batch in ((2, 1), (3, 2), (4, 3)):
    for mode in ('fifo', 'cyclic', 'uniform'):
      out.append((dict(cap=cap, batch=batch, mode=mode, pytree=True),
                  4 if q else 5, 0))
  # sharded wrappers
  for wrapper, d in (('pjit', 4 if q else 5), ('pmap', 3 if q else 4)):
    for shards in (2, 3, 4):
      for cap, batch in ((1, 1), (2, 1), (2, 2), (3, 2)):
        if q and wrapper == 'pmap' and cap == 3:
          continue
        for mode in ('fifo', 'cyclic', 'uniform'):
          dd = d - 1 if mode == 'uniform' else d
          out.append((dict(cap=cap, batch=batch, mode=mode, wrapper=wrapper,
                           shards=shards), dd, 0))
  return out


def _tla_configs(tier):
  out = []
  caps = (1, 2, 3) if tier == 'quick' else (1, 2, 3, 4)
  for cap in caps:
    for batch in (1, 2, 3):
      for cyc in (False, True):
        out.append(dict(cap=cap, batch=batch, cyclic=cyc,
                        maxrec=2 * cap + (2 if tier == 'quick' else 4)))
  return out


def run_tla(task, res):
  """TLC explores tla/ReplayQueue.tla completely (invariants checked by TLC)
  and dumps its state graph; EVERY edge of that graph is replayed against the
  real Queue: the implementation must produce the target state of the edge."""
  import os
  import re
  import shutil
  import subprocess
  import tempfile
  c = task['tla']
  root = os.path.dirname(os.path.dirname(os.path.dirname(
      os.path.abspath(__file__))))
  work = tempfile.mkdtemp(prefix='tlc_', dir=os.path.join(root, '.cache'))
  try:
    shutil.copy(os.path.join(root, 'tla', 'ReplayQueue.tla'), work)
    with open(os.path.join(work, 'ReplayQueue.cfg'), 'w') as f:
      f.write('CONSTANTS Cap = %d\nBatch = %d\nCyclic = %s\nMaxRec = %d\n'
              'INIT Init\nNEXT Next\nINVARIANT Inv\n' % (
                  c['cap'], c['batch'], 'TRUE' if c['cyclic'] else 'FALSE',
                  c['maxrec']))
    p = subprocess.run(
        ['tlc', '-workers', '1', '-noGenerateSpecTE', '-deadlock', '-metadir',
         os.path.join(work, 'meta'), '-dump', 'dot,actionlabels',
         os.path.join(work, 'out.dot'), 'ReplayQueue'], cwd=work,
        capture_output=True, text=True, timeout=900)
    if 'No error has been found' not in p.stdout:
      res.setdefault('errors', []).append('TLC did not finish cleanly: ' +
                                          p.stdout[-800:] + p.stderr[-400:])
      return
    m = re.search(r'(\d+) states generated, (\d+) distinct states', p.stdout)
    dot = open(os.path.join(work, 'out.dot')).read()
  finally:
    shutil.rmtree(work, ignore_errors=True)
  nodes, edges = {}, []
  for line in dot.splitlines():
    em = re.match(r'(-?\d+) -> (-?\d+) \[label="([^"]*)"', line)
    if em:
      edges.append((em.group(1), em.group(2), em.group(3)))
      continue
    nm = re.match(r'(-?\d+) \[label="([^"]*)"', line)
    if nm:
      lab = nm.group(2)
      st = {}
      for var in ('out', 'next', 'held', 'cursor'):
        v = re.search(var + r' = (<<[^>]*>>|\d+)', lab).group(1)
        st[var] = ([int(x) for x in re.findall(r'\d+', v)]
                   if v.startswith('<<') else int(v))
      nodes[nm.group(1)] = st
  init = [n for n, st in nodes.items() if st['next'] == 0 and not st['held']]
  if len(init) != 1 or int(m.group(2)) != len(nodes):
    res.setdefault('errors', []).append('could not parse the TLC state graph')
    return
  sys_ = QueueSystem(cap=c['cap'], batch=c['batch'],
                     mode='cyclic' if c['cyclic'] else 'fifo')
  # implementation state per model state, by BFS over the graph
  impl = {init[0]: sys_.init()}
  out_edges = {}
  for u, v, a in edges:
    out_edges.setdefault(u, []).append((v, a))
  frontier = [init[0]]
  case_cfg = dict(cap=c['cap'], batch=c['batch'],
                  mode='cyclic' if c['cyclic'] else 'fifo')
  hist = {init[0]: []}
  while frontier:
    u = frontier.pop(0)
    for v, a in out_edges.get(u, []):
      op = ('sample',) if a.startswith('Sample') else (
          'insert', int(re.search(r'\d+', a).group()))
      nxt, problems, outcome = sys_.apply(impl[u], op)
      res['transitions'] += 1
      res['evaluations'] += 1
      tgt = nodes[v]
      h = hist[u] + [list(op)]
      if nxt is None and not problems:
        problems = [('tla-refused', 'implementation refused %s which the '
                     'model enables' % (op,))]
      if not problems:
        held, ip, sp = sys_._held_impl(nxt[0])
        got_out = list(outcome[1]) if outcome[0] == 'sample' else []
        # the model numbers records from 0, the harness from 1
        want_held = [x + 1 for x in tgt['held']]
        want_out = [x + 1 for x in tgt['out']]
        if held[0] != want_held or sp[0] != tgt['cursor'] or \
            got_out != want_out:
          problems = [('tla-conformance',
                       'edge %s: implementation reached held=%s cursor=%d '
                       'out=%s, TLC state held=%s cursor=%d out=%s' % (
                           a, held[0], sp[0], got_out, tgt['held'],
                           tgt['cursor'], tgt['out']))]
      for key, what in problems[:1]:
        res['violations'].append(dict(key='C17:' + key, what=what,
                                      case=dict(cfg=case_cfg, history=h)))
      if problems:
        return
      if v not in impl:
        impl[v] = nxt
        hist[v] = h
        frontier.append(v)
  # model states in which Sample is NOT enabled: the implementation must refuse
  for u, st in nodes.items():
    if u in impl and not any(a.startswith('Sample') for _, a in
                             out_edges.get(u, [])):
      nxt, problems, outcome = sys_.apply(impl[u], ('sample',))
      res['transitions'] += 1
      if nxt is not None or problems:
        res['violations'].append(dict(
            key='C17:tla-refusal', what='model state %s disables Sample but '
            'the implementation %s' % (st, problems or 'accepted it'),
            case=dict(cfg=case_cfg, history=hist[u] + [['sample']])))
        return
  res['states'] += len(nodes)
  res['paths'] += len(edges)
  res['extra']['tlc_states'] = len(nodes)
  res['extra']['tlc_edges_replayed'] = len(edges)
  res['samples'].append(dict(kind='TLC state graph replay', cfg=c,
                             tlc_distinct_states=len(nodes),
                             edges_replayed=len(edges)))


def tasks(tier, seed):
  ts = []
  for c in _tla_configs(tier):
    ts.append(dict(name='tla %s' % c, kind='tla', tla=c, cost=3000))
  for cfg, d, b in _configs(tier):
    branch = cfg['cap'] + 2
    cost = branch ** d * (30 if cfg.get('wrapper') == 'pmap' else
                          3 if cfg.get('wrapper') == 'pjit' else 1)
    t = dict(name='%s' % cfg, cfg=cfg, depth=d, bfs=b, cost=cost)
    if cfg.get('wrapper') == 'pmap':
      # the pinned jax's pmap needs the mapped size to equal the device count
      t['env'] = {'XLA_FLAGS': '--xla_force_host_platform_device_count=%d '
                               '--xla_cpu_multi_thread_eigen=false' %
                               cfg['shards']}
    ts.append(t)
  return ts


def _nontrivial(hist, cap):
  tot = 0
  ins = False
  for op in hist:
    if op[0] == 'insert':
      if op[1] <= cap:
        tot += op[1]
        ins = True
        if tot > cap:
          return True
    elif ins:
      return True
  return False


def run_task(task):
  if task.get('kind') == 'tla':
    res = dict(evaluations=0, states=0, transitions=0, paths=0, nontrivial=0,
               outcomes=[], violations=[], caps=[], samples=[], extra={})
    run_tla(task, res)
    res['outcomes'] = [task['name']]
    return res
  cfg = task['cfg']
  sys_ = QueueSystem(**cfg)
  st = seqx.dfs_tree(sys_, task['depth'])
  nt = _Counter(cfg['cap'])
  # count non-trivial leaves exactly by replaying labels of the explored tree
  res = dict(evaluations=st.transitions, states=st.nodes,
             transitions=st.transitions, paths=st.paths,
             outcomes=[repr((task['name'], o)) for o in list(st.outcomes)[:200]],
             violations=[], caps=list(st.caps), samples=[], extra={})
  for key, what, hist in st.problems:
    res['violations'].append(dict(key='C17:' + key, what=what,
                                  case=dict(cfg=cfg, history=hist)))
  for a in st.abstraction_errors:
    res.setdefault('errors', []).append('abstraction error (harness): %r' % a)
  closed_states = 0
  if task['bfs'] and not st.problems:
    st2, seen = seqx.bfs_closure(sys_, task['bfs'])
    closed_states = len(seen)
    res['states'] += st2.nodes
    res['transitions'] += st2.transitions
    res['evaluations'] += st2.transitions
    res['paths'] += st2.paths
    res['caps'] += st2.caps
    for key, what, hist in st2.problems:
      res['violations'].append(dict(key='C17:' + key, what=what,
                                    case=dict(cfg=cfg, history=hist)))
    res['extra']['canonical_states_closed'] = closed_states
    res['extra']['bfs_max_depth'] = [st2.max_depth]
  res['nontrivial'] = nt.count_tree(sys_, task['depth'])
  res['samples'] = [dict(cfg=cfg, depth=task['depth'],
                         example_history=nt.example)]
  if cfg['mode'] == 'uniform':
    res['extra']['uniform_support'] = [
        dict(cfg=str(cfg), held=h, ranks_seen=sorted(s))
        for h, s in sorted(sys_.support.items())]
  return res


class _Counter:
  """Counts non-trivial complete histories with the reference model only
  (same pruning as the explorer: a refused op ends its branch)."""

  def __init__(self, cap):
    self.cap = cap
    self.example = None

  def count_tree(self, sys_, depth):
    cap, batch, mode = sys_.cap, sys_.batch, sys_.mode
    n = 0

    def walk(ref, hist):
      nonlocal n
      if len(hist) == depth:
        if _nontrivial(hist, cap):
          n += 1
          if self.example is None or len(hist) > len(self.example):
            self.example = [list(o) for o in hist]
        return
      for k in range(1, cap + 2):
        if k > cap:
          if _nontrivial(hist + [('insert', k)], cap):
            n += 1
          continue
        r = ref.copy()
        r.insert([0] * k)
        walk(r, hist + [('insert', k)])
      if mode == 'uniform':
        if ref.held:
          walk(ref, hist + [('sample',)])
      elif ref.can_sample():
        r = ref.copy()
        r.sample()
        walk(r, hist + [('sample',)])
      elif _nontrivial(hist + [('sample',)], cap):
        n += 1

    walk(Ref(cap, batch, 'fifo' if mode == 'uniform' else mode), [])
    return n


def vacuous(tot, tier):
  if len(tot['outcomes']) < 20:
    return 'only %d distinct outcomes' % len(tot['outcomes'])
  return None


def replay_env(rec):
  cfg = rec['case']['cfg']
  if cfg.get('wrapper') == 'pmap':
    return {'XLA_FLAGS': '--xla_force_host_platform_device_count=%d '
                         '--xla_cpu_multi_thread_eigen=false' % cfg['shards']}
  return {}


def replay(rec):
  case = rec['case']
  sys_ = QueueSystem(**case['cfg'])
  hist = [tuple(o) for o in case['history']]
  out = seqx.replay_history(sys_, hist)
  bad = any(s['problems'] for s in out)
  text = '\n'.join('%d %s -> %s %s' % (s['step'], s['op'], s['outcome'],
                                      s['problems'] or '') for s in out)
  return (not bad), 'cfg=%s\n%s' % (case['cfg'], text)


def determinism_case():
  sys_ = QueueSystem(cap=3, batch=2, mode='cyclic')
  hist = [('insert', 2), ('sample',), ('insert', 3), ('sample',),
          ('insert', 1), ('sample',)]
  out = seqx.replay_history(sys_, hist)
  sys2 = QueueSystem(cap=3, batch=2, mode='uniform')
  out2 = seqx.replay_history(sys2, [('insert', 3), ('sample',), ('sample',)])
  return [out, out2]
