"""C16 environment contract and numerical finiteness (float32, as users run)."""

import itertools

import numpy as np

LEVEL = 'model_checking'
X64 = False
MAXTASKS = 2
ENVS = ['ant', 'halfcheetah', 'hopper', 'humanoid', 'humanoidstandup',
        'inverted_pendulum', 'inverted_double_pendulum', 'pusher', 'reacher',
        'swimmer', 'walker2d']
BACKENDS = ['generalized', 'spring', 'positional']
RULE = ('every registered physics environment x every backend its constructor '
        'accepts x reset keys PRNGKey(0..K) x the full action-word tree over '
        'the alphabet {all -1, all +1, 0, alternating +-1, seeded uniform '
        'vector} (letters held for a block of steps) plus 32 (80 thorough) fast '
        'seeded bang-bang members (sign flips every 1..21 steps), all as members of '
        'one batch) through training.wrap(env, episode_length=1000): contract '
        '(observation size, action size, done=0 after reset, bitwise '
        'determinism of reset and step) and, at EVERY step of every word, '
        'finiteness of obs/reward/done/q/qd and unit link quaternions. '
        'non-trivial = word with a non-zero letter; distinct = (env, backend, '
        'key, word); states/transitions = member-steps checked')
ASSUMPTIONS = [
    'default float32 mode on purpose (the mode users run); quaternion norm '
    'tolerance 1e-5',
    'a finite set of reset keys and the stated action alphabet',
]


def _letters(act_size, seed):
  rng = np.random.RandomState(300 + seed)
  alt = np.array([(-1.0) ** i for i in range(act_size)])
  return [-np.ones(act_size), np.ones(act_size), np.zeros(act_size), alt,
          rng.uniform(-1, 1, act_size)]


def tasks(tier, seed):
  ts = []
  for e in ENVS:
    for b in BACKENDS:
      cost = {'humanoid': 60, 'humanoidstandup': 70, 'ant': 30}.get(e, 15) * (
          2 if b == 'generalized' else 1)
      ts.append(dict(name='%s/%s' % (e, b), envname=e, backend=b, cost=cost))
  return ts


def run_task(task):
  import jax
  import jax.numpy as jp
  from brax import envs
  from brax.envs.wrappers import training
  res = dict(evaluations=0, nontrivial=0, states=0, transitions=0, paths=0,
             violations=[], samples=[], outcomes=[], extra={}, caps=[])
  name, backend, tier, seed = (task['envname'], task['backend'], task['tier'],
                               task['seed'])
  case = dict(env=name, backend=backend, seed=seed, tier=tier)
  try:
    env = envs.get_environment(name, backend=backend)
  except ValueError as e:
    res['extra']['unsupported_pairs'] = ['%s/%s' % (name, backend)]
    res['evaluations'] = 1
    res['outcomes'] = ['unsupported']
    return res
  L, hold, K = (2, 50, 3) if tier == 'quick' else (4, 75, 16)
  A = env.action_size
  letters = _letters(A, seed)
  words = list(itertools.product(range(len(letters)), repeat=L))
  if tier != 'quick':
    words = words[:625]
  # extra members: fast seeded bang-bang (independent signs per dimension,
  # flipping every 1 (half of the members), 2, 3, 5, 8, 13, 21 steps)
  periods = [1] * (16 if tier == 'quick' else 128) + [2, 2, 3, 3, 5, 5, 8, 8,
                                                      13, 13, 21, 21, 2, 3, 5,
                                                      8]
  NB = len(periods)
  B = len(words) + NB
  T = L * hold
  acts = np.zeros((T, B, A), np.float32)
  for b, w in enumerate(words):
    for li, l in enumerate(w):
      acts[li * hold:(li + 1) * hold, b] = letters[l]
  rngb = np.random.RandomState(700 + seed)
  for k, period in enumerate(periods):
    signs = rngb.choice([-1.0, 1.0], size=(T // period + 1, A))
    acts[:, len(words) + k] = np.repeat(signs, period, axis=0)[:T]
  words = words + [(-1 - k,) * L for k in range(NB)]
  keys = jp.stack([jax.random.PRNGKey(b % K) for b in range(B)])
  wenv = training.wrap(env, episode_length=1000)
  reset = jax.jit(wenv.reset)

  def viol(key, what):
    res['violations'].append(dict(key=key, what='%s/%s: %s' % (name, backend,
                                                              what),
                                  case=case))
  try:
    s0 = reset(keys)
    s0b = reset(keys)
  except Exception as e:  # pylint: disable=broad-except
    viol('C16:%s:reset-raises-%s' % (name, type(e).__name__), str(e)[:200])
    return res
  res['evaluations'] += B
  osz = env.observation_size
  if s0.obs.shape != (B, osz):
    viol('C16:observation-size', 'obs shape %s but observation_size %s' %
         (s0.obs.shape, osz))
  if float(jp.abs(s0.done).max()) != 0.0:
    viol('C16:done-after-reset', 'done != 0 after reset')
  same = jax.tree_util.tree_all(jax.tree.map(
      lambda a, b: bool(jp.array_equal(a, b, equal_nan=True)), s0, s0b))
  if not same:
    viol('C16:determinism', 'two resets with the same keys differ')
  def roll(s, a):
    def body(s, a):
      s = wenv.step(s, a)
      ps = s.pipeline_state
      fin = (jp.isfinite(s.obs).all(axis=-1) & jp.isfinite(s.reward) &
             jp.isfinite(s.done) & jp.isfinite(ps.q).all(axis=-1) &
             jp.isfinite(ps.qd).all(axis=-1))
      qn = jp.abs(jp.linalg.norm(ps.x.rot, axis=-1) - 1).max(axis=-1)
      return s, (fin, qn, s.done)
    return jax.lax.scan(body, s, a)
  jroll = jax.jit(roll)
  try:
    sf, (fin, qn, done) = jroll(s0, jp.asarray(acts))
    sf2, (fin2, qn2, done2) = jroll(s0, jp.asarray(acts))
  except TypeError as e:
    if name == 'swimmer' and 'a_min' in str(e):
      viol('C16:swimmer:step-raises-TypeError', str(e)[:160])
    else:
      viol('C16:%s:step-raises-TypeError' % name, str(e)[:200])
    return res
  except Exception as e:  # pylint: disable=broad-except
    viol('C16:%s:step-raises-%s' % (name, type(e).__name__), str(e)[:200])
    return res
  same = jax.tree_util.tree_all(jax.tree.map(
      lambda a, b: bool(jp.array_equal(a, b, equal_nan=True)),
      (sf.obs, sf.reward, sf.done, sf.pipeline_state.q, qn, done),
      (sf2.obs, sf2.reward, sf2.done, sf2.pipeline_state.q, qn2, done2)))
  if not same:
    viol('C16:determinism', 'two rollouts from the same keys and actions '
         'differ')
  if sf.obs.shape != (B, osz):
    viol('C16:observation-size', 'obs shape %s after stepping, declared %s' %
         (sf.obs.shape, osz))
  fin, qn, done = np.asarray(fin), np.asarray(qn), np.asarray(done)
  res['states'] += T * B
  res['transitions'] += T * B
  res['paths'] += B
  res['evaluations'] += T * B
  res['nontrivial'] += sum(1 for w in words if any(l != 2 for l in w)) * T
  res['extra']['auto_resets'] = int(done.sum())
  if not fin.all():
    t, b = np.argwhere(~fin)[0]
    viol('C16:non-finite', 'non-finite obs/reward/done/q/qd at step %d of '
         'word %s (key %d)' % (t, [int(x) for x in words[b]], b % K))
  bad = ~(qn <= 1e-5)
  if bad.any():
    t, b = np.argwhere(bad)[0]
    viol('C16:unit-quaternion', 'link rotation norm off by %.3g at step %d of '
         'word %s' % (qn[t, b], t, [int(x) for x in words[b]]))
  if tier != 'quick':
    # long bang-bang histories: 8 members, 1000 steps, sign flips every 25
    # steps with member-specific phase
    T2, B2 = 1000, 8
    a2 = np.zeros((T2, B2, A), np.float32)
    for b in range(B2):
      for t in range(T2):
        a2[t, b] = 1.0 if ((t + 3 * b) // 25) % 2 == 0 else -1.0
    k2 = jp.stack([jax.random.PRNGKey(100 + b) for b in range(B2)])
    s2 = reset(k2)
    _, (fin2b, qn2b, done2b) = jroll(s2, jp.asarray(a2))
    fin2b, qn2b = np.asarray(fin2b), np.asarray(qn2b)
    res['states'] += T2 * B2
    res['transitions'] += T2 * B2
    res['paths'] += B2
    res['evaluations'] += T2 * B2
    res['nontrivial'] += T2 * B2
    if not fin2b.all():
      t, b = np.argwhere(~fin2b)[0]
      viol('C16:non-finite', 'non-finite value at step %d of the 1000-step '
           'bang-bang history %d' % (t, b))
    if not (qn2b <= 1e-5).all():
      t, b = np.argwhere(~(qn2b <= 1e-5))[0]
      viol('C16:unit-quaternion', 'link rotation norm off by %.3g at step %d '
           'of the bang-bang history %d' % (qn2b[t, b], t, b))
  res['samples'].append(dict(env=name, backend=backend, members=B, steps=T,
                             example_word=[int(x) for x in words[B // 2]],
                             auto_resets=int(done.sum())))
  res['outcomes'] = ['%s/%s:%d' % (name, backend, int(done.sum()) > 0)]
  return res


def vacuous(tot, tier):
  if tot['transitions'] < 1000:
    return 'fewer than 1000 member-steps'
  return None


def replay(rec):
  c = rec['case']
  res = run_task(dict(envname=c['env'], backend=c['backend'], tier=c['tier'],
                      seed=c['seed']))
  mine = [v for v in res['violations'] if v['key'] == rec['key']]
  return (not mine), '\n'.join(v['what'] for v in res['violations']) or 'holds'
