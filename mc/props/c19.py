"""C19 generalized advantage estimation: all mask words x determining inputs.

compute_gae is compared with the defining sum evaluated in exact rational
arithmetic for every termination/truncation word over {none, terminated,
truncated}^T, a (lambda, discount) grid and the basis of the linear input
space.
"""

from fractions import Fraction as Fr
import itertools

import numpy as np

LEVEL = 'exploration'
X64 = True
RULE = ('for each T: every mask word in {none,terminated,truncated}^T x every '
        '(lambda,discount) in {0,1/4,1/2,1}^2 + 2 seeded dyadic pairs x input '
        'vectors {0, unit vectors of (rewards, values, bootstrap), 1 seeded '
        'generic vector in [-5,5]}; all cases of one (T,lambda,discount) are '
        'members of one batch; explicit small batches B=1,2,4; gradient of '
        'the outputs is required to be exactly zero. non-trivial = word '
        'contains a termination or truncation and the input is non-zero; '
        'distinct = distinct (T, word, lambda, discount, input) tuples')
ASSUMPTIONS = [
    'reference: defining sum in fractions.Fraction (mc/props/c19.py:ref_gae)',
    'outputs are linear in (rewards, values, bootstrap) for fixed masks and '
    '(lambda, discount), so the basis decides all real inputs; polynomial of '
    'degree <= T in lambda and in discount, decided by the 4-point grid for '
    'T <= 3, bounded grid claim above',
]
TOL = 1e-12
LETTERS = 'ntx'  # none, terminated, truncated (x)


def ref_gae(trunc, term, r, v, boot, lam, gam):
  T = len(r)
  vn = v[1:] + [boot]
  delta = [(1 - trunc[t]) * (r[t] + gam * (1 - term[t]) * vn[t] - v[t])
           for t in range(T)]
  adv_sum = []
  for t in range(T):
    s = Fr(0)
    for k in range(t, T):
      w = (gam * lam) ** (k - t)
      for j in range(t, k):
        w *= (1 - term[j]) * (1 - trunc[j])
      s += w * delta[k]
    adv_sum.append(s)
  vs = [adv_sum[t] + v[t] for t in range(T)]
  vsn = vs[1:] + [boot]
  adv = [(r[t] + gam * (1 - term[t]) * vsn[t] - v[t]) * (1 - trunc[t])
         for t in range(T)]
  return vs, adv


def _word_masks(word):
  term = [Fr(1 if c == 't' else 0) for c in word]
  trunc = [Fr(1 if c == 'x' else 0) for c in word]
  return trunc, term


def _inputs(T, seed):
  """List of (name, rewards, values, boot) with Fraction entries."""
  z = [Fr(0)] * T
  out = [('zero', list(z), list(z), Fr(0))]
  for t in range(T):
    r = list(z); r[t] = Fr(1)
    out.append(('r%d' % t, r, list(z), Fr(0)))
  for t in range(T):
    v = list(z); v[t] = Fr(1)
    out.append(('v%d' % t, list(z), v, Fr(0)))
  out.append(('boot', list(z), list(z), Fr(1)))
  rng = np.random.RandomState(1000 + seed)
  g = [Fr(int(x), 16) for x in rng.randint(-80, 81, size=2 * T + 1)]
  out.append(('generic', g[:T], g[T:2 * T], g[2 * T]))
  return out


def _lamgam(seed):
  base = [Fr(0), Fr(1, 4), Fr(1, 2), Fr(1)]
  pairs = [(l, g) for l in base for g in base]
  rng = np.random.RandomState(2000 + seed)
  for _ in range(2):
    pairs.append((Fr(int(rng.randint(1, 64)), 64),
                  Fr(int(rng.randint(1, 64)), 64)))
  return pairs


def _words(T, full):
  if full:
    return [''.join(w) for w in itertools.product(LETTERS, repeat=T)]
  # structured family for long T: <= 2 events anywhere + all-one words
  ws = set(['n' * T, 't' * T, 'x' * T])
  for i in range(T):
    for a in 'tx':
      w = ['n'] * T; w[i] = a
      ws.add(''.join(w))
      for j in range(i + 1, T):
        for b in 'tx':
          w2 = list(w); w2[j] = b
          ws.add(''.join(w2))
  return sorted(ws)


def tasks(tier, seed):
  ts = []
  maxT_full = 6 if tier == 'quick' else 8
  maxT = 8 if tier == 'quick' else 12
  pairs = _lamgam(seed)
  for T in range(1, maxT + 1):
    full = T <= maxT_full
    nw = 3 ** T if full else len(_words(T, False))
    chunk = 18 if nw < 500 else (3 if nw < 3000 else 1)
    for i in range(0, len(pairs), chunk):
      ts.append(dict(name='stack T=%d lg=%d' % (T, i), kind='stack', T=T,
                     full=full, lg=[i, min(len(pairs), i + chunk)],
                     cost=nw * (2 * T + 3) * T * T * chunk))
  ts.append(dict(name='small-batches', kind='small', cost=5e5))
  ts.append(dict(name='grad', kind='grad', cost=1e5))
  return ts


def _to_np(cols, T):
  """cols: list of (trunc, term, r, v, boot) -> arrays [T,B] float64."""
  f = lambda i: np.array([[float(c[i][t]) for c in cols] for t in range(T)])
  return f(0), f(1), f(2), f(3), np.array([float(c[4]) for c in cols])


def _case(T, word, lam, gam, inp):
  return dict(T=T, word=word, lam=[lam.numerator, lam.denominator],
              gam=[gam.numerator, gam.denominator], input=inp[0],
              rewards=[str(x) for x in inp[1]], values=[str(x) for x in inp[2]],
              boot=str(inp[3]))


def _gae():
  import jax
  from brax.training.agents.ppo import losses
  return jax.jit(losses.compute_gae), losses.compute_gae


def run_task(task):
  seed = task['seed']
  res = dict(evaluations=0, nontrivial=0, violations=[], samples=[],
             outcomes=set(), extra={})
  jgae, gae = _gae()
  if task['kind'] == 'stack':
    T = task['T']
    words = _words(T, task['full'])
    inputs = _inputs(T, seed)
    pairs = _lamgam(seed)[task['lg'][0]:task['lg'][1]]
    cols, meta = [], []
    for w in words:
      trunc, term = _word_masks(w)
      for inp in inputs:
        cols.append((trunc, term, inp[1], inp[2], inp[3]))
        meta.append((w, inp))
    arrs = _to_np(cols, T)
    for lam, gam in pairs:
      vs, adv = jgae(*arrs, float(lam), float(gam))
      vs, adv = np.asarray(vs), np.asarray(adv)
      if vs.shape != (T, len(cols)) or adv.shape != (T, len(cols)):
        res['violations'].append(dict(key='C19:shape', what='output shape %s' %
                                      (vs.shape,), case=_case(T, words[0], lam,
                                                              gam, inputs[0])))
        continue
      nbad = 0
      for b, (w, inp) in enumerate(meta):
        rvs, radv = ref_gae(cols[b][0], cols[b][1], inp[1], inp[2], inp[3],
                            lam, gam)
        res['evaluations'] += 1
        if inp[0] != 'zero' and w != 'n' * T:
          res['nontrivial'] += 1
        e1 = max(abs(float(rvs[t]) - vs[t, b]) for t in range(T))
        e2 = max(abs(float(radv[t]) - adv[t, b]) for t in range(T))
        bad1 = not (e1 <= TOL * (1 + max(abs(float(x)) for x in rvs)))
        bad2 = not (e2 <= TOL * (1 + max(abs(float(x)) for x in radv)))
        if (bad1 or bad2) and nbad < 5:
          nbad += 1
          c = _case(T, w, lam, gam, inp)
          res['violations'].append(dict(
              key='C19:' + ('value-targets' if bad1 else 'advantages'),
              what='T=%d word=%s lam=%s gam=%s input=%s: vs err %.3g adv err '
              '%.3g (impl vs=%s adv=%s; ref vs=%s adv=%s)' %
              (T, w, lam, gam, inp[0], e1, e2, vs[:, b].tolist(),
               adv[:, b].tolist(), [float(x) for x in rvs],
               [float(x) for x in radv]), case=c))
      res['outcomes'].add(hash(vs.tobytes()) % 10**9)
    res['samples'].append(_case(T, words[len(words) // 2], pairs[0][0],
                                pairs[0][1], inputs[-1]))
    res['extra']['mask_words'] = len(words)
    if not task['full']:
      res['extra']['structured_only_T'] = [T]
  elif task['kind'] == 'small':
    _small(task, res, jgae, gae, seed)
  else:
    _grad(task, res, seed)
  res['outcomes'] = list(res['outcomes'])
  res.pop('_seed', None)
  return res


def _check_cols(res, T, cols, metas, lam, gam, vs, adv, tag):
  for b, (w, inp) in enumerate(metas):
    rvs, radv = ref_gae(cols[b][0], cols[b][1], inp[1], inp[2], inp[3], lam,
                        gam)
    res['evaluations'] += 1
    if inp[0] != 'zero' and w != 'n' * T:
      res['nontrivial'] += 1
    e1 = max(abs(float(rvs[t]) - vs[t, b]) for t in range(T))
    e2 = max(abs(float(radv[t]) - adv[t, b]) for t in range(T))
    if not (e1 <= TOL * 10 and e2 <= TOL * 10):
      if len(res['violations']) < 10:
        c = _case(T, w, lam, gam, inp)
        c['batch_words'] = [m[0] for m in metas]
        c['batch_inputs'] = [m[1][0] for m in metas]
        c['member'] = b
        c['seed'] = res.get('_seed', 0)
        res['violations'].append(dict(
            key='C19:small-batch-' + tag,
            what='B=%d member %d word=%s: vs err %.3g adv err %.3g' %
            (len(metas), b, w, e1, e2), case=c))


def _small(task, res, jgae, gae, seed):
  """Explicit batch shapes B = 1, 2, 4 (one real call per batch)."""
  res['_seed'] = seed
  lam, gam = Fr(1, 2), Fr(3, 4)
  maxT1 = 4 if task['tier'] == 'quick' else 5
  for T in range(1, maxT1 + 1):
    gen = _inputs(T, seed)[-1]
    for w in _words(T, True):
      tr, te = _word_masks(w)
      cols = [(tr, te, gen[1], gen[2], gen[3])]
      vs, adv = jgae(*_to_np(cols, T), float(lam), float(gam))
      _check_cols(res, T, cols, [(w, gen)], lam, gam, np.asarray(vs),
                  np.asarray(adv), 'B1')
  maxT2 = 3
  for T in range(1, maxT2 + 1):
    ins = _inputs(T, seed)
    gen, gen2 = ins[-1], ins[1]
    ws = _words(T, True)
    for w1 in ws:
      for w2 in ws:
        cols = [(*_word_masks(w1), gen[1], gen[2], gen[3]),
                (*_word_masks(w2), gen2[1], gen2[2], gen2[3])]
        vs, adv = jgae(*_to_np(cols, T), float(lam), float(gam))
        _check_cols(res, T, cols, [(w1, gen), (w2, gen2)], lam, gam,
                    np.asarray(vs), np.asarray(adv), 'B2')
  for T in (2, 5, 7):
    ins = _inputs(T, seed)
    ws = _words(T, False)
    pick = [ws[0], ws[len(ws) // 3], ws[2 * len(ws) // 3], ws[-1]]
    inps = [ins[-1], ins[1], ins[T + 1], ins[2 * T + 1]]
    cols = [(*_word_masks(w), i[1], i[2], i[3]) for w, i in zip(pick, inps)]
    # eager call as well (un-jitted public function)
    for f, tag in ((jgae, 'B4'), (gae, 'B4-eager')):
      vs, adv = f(*_to_np(cols, T), float(lam), float(gam))
      _check_cols(res, T, cols, list(zip(pick, inps)), lam, gam,
                  np.asarray(vs), np.asarray(adv), tag)
  res['samples'].append(dict(kind='small-batches', B=[1, 2, 4]))


def _grad(task, res, seed):
  import jax
  import jax.numpy as jnp
  from brax.training.agents.ppo import losses
  for T in (1, 2, 3, 5):
    gen = _inputs(T, seed)[-1]
    ws = _words(T, T <= 3)
    for w in ws:
      tr, te = _word_masks(w)
      a = _to_np([(tr, te, gen[1], gen[2], gen[3])], T)

      def f(r, v, b, lam, gam, which):
        out = losses.compute_gae(jnp.asarray(a[0]), jnp.asarray(a[1]), r, v, b,
                                 lam, gam)
        wts = jnp.arange(1, T + 1, dtype=r.dtype)[:, None]
        return jnp.sum(out[which] * wts)

      for which in (0, 1):
        g = jax.grad(f, argnums=(0, 1, 2, 3, 4))(
            jnp.asarray(a[2]), jnp.asarray(a[3]), jnp.asarray(a[4]), 0.5, 0.75,
            which)
        res['evaluations'] += 1
        res['nontrivial'] += 1
        worst = max(float(jnp.max(jnp.abs(x))) for x in g)
        if worst != 0.0:
          res['violations'].append(dict(
              key='C19:gradient-leak',
              what='output %d carries gradient %.3g (T=%d word=%s)' %
              (which, worst, T, w),
              case=dict(kind='grad', T=T, word=w, which=which)))
          break
  res['samples'].append(dict(kind='grad', T=[1, 2, 3, 5]))


def vacuous(tot, tier):
  if tot['evaluations'] < 1000:
    return 'too few evaluations'
  return None


def replay(rec):
  c = rec['case']
  jgae, gae = _gae()
  if c.get('kind') == 'grad':
    res = dict(evaluations=0, nontrivial=0, violations=[], samples=[])
    _grad(dict(tier='quick'), res, 0)
    return (not res['violations']), repr(res['violations'][:2])
  T = c['T']
  lam, gam = Fr(*c['lam']), Fr(*c['gam'])
  if 'batch_words' in c:
    ins = {i[0]: i for i in _inputs(T, c.get('seed', 0))}
    metas = [(w, ins[n]) for w, n in zip(c['batch_words'], c['batch_inputs'])]
    cols = [(*_word_masks(w), i[1], i[2], i[3]) for w, i in metas]
    res = dict(evaluations=0, nontrivial=0, violations=[])
    for f, tag in ((jgae, 'jit'), (gae, 'eager')):
      vs, adv = f(*_to_np(cols, T), float(lam), float(gam))
      _check_cols(res, T, cols, metas, lam, gam, np.asarray(vs),
                  np.asarray(adv), tag)
    return (not res['violations']), 'batch %s\n%s' % (
        c['batch_words'], '\n'.join(v['what'] for v in res['violations']))
  tr, te = _word_masks(c['word'])
  r = [Fr(x) for x in c['rewards']]
  v = [Fr(x) for x in c['values']]
  b = Fr(c['boot'])
  cols = [(tr, te, r, v, b)]
  vs, adv = gae(*_to_np(cols, T), float(lam), float(gam))
  rvs, radv = ref_gae(tr, te, r, v, b, lam, gam)
  vs, adv = np.asarray(vs)[:, 0], np.asarray(adv)[:, 0]
  e = max(max(abs(float(rvs[t]) - vs[t]), abs(float(radv[t]) - adv[t]))
          for t in range(T))
  text = ('T=%d word=%s lam=%s gam=%s\nimpl vs=%s adv=%s\nref  vs=%s adv=%s\n'
          'max err %.3g' % (T, c['word'], lam, gam, vs.tolist(), adv.tolist(),
                            [float(x) for x in rvs], [float(x) for x in radv],
                            e))
  return e <= 1e-11, text
