"""C11 actuators: all short actuator lists x ctrl grid vs MuJoCo qfrc_actuator."""

import itertools

import numpy as np

from mc import mjref, phys, scope

LEVEL = 'exploration'
X64 = True
RULE = ('4 base models (single hinge; slide on a rotated body; free root + '
        'HS + SH stacks; two roots) x ALL actuator lists of length 0,1,2 '
        '(3 in thorough, plus lists of 10) over {joint} x {motor, position, '
        'velocity} x {ctrl-limited?} x {force-limited?} (same joint allowed '
        'several times) x 4 states x full product ctrl grid {-3, lower bound, '
        'interior, 0, upper bound, 3}^nu. oracle: mujoco qfrc_actuator; plus '
        'exact zero on un-actuated dofs, monotonicity along each control '
        'coordinate, constancy outside the control range. non-trivial = list '
        'with >= 2 actuators or a limited actuator; distinct = distinct '
        '(model, list, state, ctrl)')
ASSUMPTIONS = [
    'MuJoCo actuator model (gain, affine bias on length/velocity, force '
    'clip, gear) is the reference',
    'force is piecewise linear in ctrl with breakpoints at the ctrl bounds '
    '(in the grid exactly) and where the force bounds are hit (bracketed)',
]
CTRL = [-3.0, -1.0, -0.4, 0.0, 0.7, 3.0]
CR = [-1.0, 0.7]


def base_models(seed):
  ms = []
  rng = scope.rng_for(seed, 'c11', 0)
  ms.append(phys.spec_of([phys.tmpl('H', -1, rng, 0)]))
  ms.append(phys.spec_of([phys.tmpl('S', -1, rng, 2)]))
  ms.append(phys.spec_of([phys.tmpl('F', -1, rng, 1),
                          phys.tmpl('HS', 0, rng, 1),
                          phys.tmpl('SH', 1, rng, 3)]))
  ms.append(phys.spec_of([phys.tmpl('HH', -1, rng, 3),
                          phys.tmpl('S', -1, rng, 1)]))
  return ms


def joints_of(spec):
  return [(i, j) for i, l in enumerate(spec['links']) if l['kind'] != 'F'
          for j in range(len(l['kind']))]


def letter(jt, kind, cl, fl, k):
  a = dict(joint=list(jt), kind=kind, gear=[0.5, 2.0, 3.0, 1.0, -1.5][k % 5])
  if kind == 'position':
    a['kp'] = 5.0 + k % 3
    if k % 2:
      a['kv'] = 0.7      # position servo with velocity damping
  if kind == 'velocity':
    a['kv'] = 2.0 + k % 2
  if cl:
    a['ctrlrange'] = CR
  if cl == 2:
    a['ctrllimited'] = 'false'   # a range is given but the limit is off
  if fl:
    a['forcerange'] = [-0.8, 0.5] if kind == 'motor' else [-2.5, 1.5]
  return a


def lists(spec, tier):
  J = joints_of(spec)
  K = ['motor', 'position', 'velocity']
  L = [(jt, k, cl, fl) for jt in J for k in K for cl in (0, 1, 2)
       for fl in (0, 1)]
  out = [[]]
  out += [[x] for x in L]
  base = [(jt, k) for jt in J for k in K]
  if len(J) <= 1 or tier != 'quick':
    out += [[a, b] for a in L for b in L]
  else:
    pats = [(0, 0, 0, 0), (1, 1, 1, 1), (1, 0, 0, 1), (0, 1, 1, 0),
            (2, 1, 2, 0)]
    for n, (a, b) in enumerate(itertools.product(base, base)):
      p = pats[n % 5]
      out.append([(a[0], a[1], p[0], p[1]), (b[0], b[1], p[2], p[3])])
  if tier != 'quick':
    for a, b, c in itertools.product(base, repeat=3):
      out.append([(a[0], a[1], 1, 1), (b[0], b[1], 1, 0), (c[0], c[1], 0, 1)])
  rng = np.random.RandomState(len(J))
  for _ in range(2 if tier == 'quick' else 5):
    out.append([L[rng.randint(len(L))] for _ in range(10)])
  return out


_TAU = {}


def _tau():
  import jax
  from brax import actuator
  if 'f' not in _TAU:
    _TAU['f'] = jax.jit(jax.vmap(
        lambda sys, c, q, qd: actuator.to_tau(sys, c, q, qd),
        in_axes=(None, 0, None, None)))
  return _TAU['f']


def states(spec, seed):
  nq, nv = scope.nq_nv(spec)
  rng = scope.rng_for(seed, 'c11states', nq)
  out = [(np.zeros(nq), np.zeros(nv))]
  for s in (0.6, 1.5, 0.3):
    q = rng.uniform(-s, s, nq)
    qd = rng.uniform(-2 * s, 2 * s, nv)
    out.append((q, qd))
  off = 0
  for l in spec['links']:
    if l['kind'] == 'F':
      for q, _ in out:
        q[off + 3:off + 7] = scope.generic_quat(rng) if q.any() else [1, 0, 0,
                                                                     0]
      off += 7
    else:
      off += len(l['kind'])
  return out


def check_list(spec, lst, seed, res, tier):
  import jax.numpy as jp
  s = dict(spec)
  s['actuators'] = [letter(jt, k, cl, fl, n) for n, (jt, k, cl, fl) in
                    enumerate(lst)]
  sys, mj = scope.load(s)
  ref = mjref.Ref(mj)
  nu = len(lst)
  nq, nv = scope.nq_nv(s)
  if nu == 0:
    grid = np.zeros((1, 0))
  elif nu <= 3:
    grid = np.array(list(itertools.product(CTRL, repeat=nu)))
  else:
    rng = np.random.RandomState(nu)
    grid = np.array([[CTRL[rng.randint(6)] for _ in range(nu)]
                     for _ in range(64)])
  actuated = set()
  off = 0
  dadr = {}
  for i, l in enumerate(s['links']):
    if l['kind'] == 'F':
      off += 6
    else:
      for j in range(len(l['kind'])):
        dadr[(i, j)] = off
        off += 1
  for (jt, k, cl, fl) in lst:
    actuated.add(dadr[tuple(jt)])
  nt = nu >= 2 or any(x[2] or x[3] for x in lst)
  # forces of a list add, so several actuators on one dof are not monotone
  # in one control only if gears differ in sign: handled per actuator below
  case0 = dict(spec=spec, seed=seed,
               list=[[list(x[0]), x[1], x[2], x[3]] for x in lst])
  for (q, qd) in states(s, seed):
    if nu:
      tau = np.asarray(_tau()(phys.strip(sys), jp.asarray(grid), jp.asarray(q),
                              jp.asarray(qd)))
    else:
      from brax import actuator
      tau = np.asarray(actuator.to_tau(sys, jp.zeros(0), jp.asarray(q),
                                       jp.asarray(qd)))[None]
    for gi, c in enumerate(grid):
      want = ref.forward(q, qd, c if nu else None).qfrc_actuator.copy()
      res['evaluations'] += 1
      res['nontrivial'] += int(nt)
      case = dict(case0, q=q.tolist(), qd=qd.tolist(), ctrl=c.tolist())
      if not np.allclose(tau[gi], want, rtol=1e-10, atol=1e-10):
        res['violations'].append(dict(
            key='C11:force', what='to_tau %s, mujoco qfrc_actuator %s for '
            'ctrl %s actuators %s' % (tau[gi].tolist(), want.tolist(),
                                      c.tolist(), [(x[0], x[1]) for x in lst]),
            case=case))
        return
      un = [d for d in range(nv) if d not in actuated]
      if any(tau[gi][d] != 0.0 for d in un):
        res['violations'].append(dict(
            key='C11:unactuated-nonzero', what='dof without actuator got %s' %
            tau[gi].tolist(), case=case))
        return
    if 0 < nu <= 3:
      T = tau.reshape((6,) * nu + (nv,))
      for a in range(nu):
        Ta = np.moveaxis(T, a, 0)
        d = dadr[tuple(lst[a][0])]
        gear_a = letter(lst[a][0], lst[a][1], lst[a][2], lst[a][3], a)['gear']
        if gear_a > 0 and np.any(np.diff(Ta[..., d], axis=0) < -1e-12):
          res['violations'].append(dict(
              key='C11:monotone', what='force on dof %d decreases along '
              'control %d' % (d, a), case=dict(case0, q=q.tolist(),
                                               qd=qd.tolist(), ctrl=None)))
          return
        if lst[a][2] == 1:
          if np.any(Ta[0] != Ta[1]) or np.any(Ta[4] != Ta[5]):
            res['violations'].append(dict(
                key='C11:ctrl-clip', what='force changes outside the control '
                'range of actuator %d' % a,
                case=dict(case0, q=q.tolist(), qd=qd.tolist(), ctrl=None)))
            return


def tasks(tier, seed):
  ts = []
  for mi, spec in enumerate(base_models(seed)):
    n = len(lists(spec, tier))
    parts = max(1, min(16, n // 60))
    for p in range(parts):
      ts.append(dict(name='model %d part %d/%d' % (mi, p, parts), model=mi,
                     part=p, parts=parts, cost=n / parts))
  return ts


def run_task(task):
  res = dict(evaluations=0, nontrivial=0, violations=[], samples=[],
             outcomes=set(), extra={})
  spec = base_models(task['seed'])[task['model']]
  L = lists(spec, task['tier'])
  for i, lst in enumerate(L):
    if i % task['parts'] != task['part']:
      continue
    check_list(spec, lst, task['seed'], res, task['tier'])
    res['outcomes'].add(len(lst))
    res['extra']['actuator_lists'] = res['extra'].get('actuator_lists', 0) + 1
    if len(res['violations']) > 5:
      break
  res['samples'].append(dict(model=phys.describe(spec),
                             example_list=[[list(x[0]), x[1], x[2], x[3]]
                                           for x in L[len(L) // 2]]))
  res['outcomes'] = ['m%d-nu%d' % (task['model'], n) for n in res['outcomes']]
  return res


def replay(rec):
  c = rec['case']
  res = dict(evaluations=0, nontrivial=0, violations=[])
  lst = [(tuple(x[0]), x[1], x[2], x[3]) for x in c['list']]
  check_list(c['spec'], lst, c.get('seed', 0), res, 'quick')
  s = dict(c['spec'])
  s['actuators'] = [letter(jt, k, cl, fl, n) for n, (jt, k, cl, fl) in
                    enumerate(lst)]
  return (not res['violations']), scope.to_xml(s) + '\n' + '\n'.join(
      v['what'] for v in res['violations'])
