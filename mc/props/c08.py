"""C08 joint <-> world round trip."""

import itertools

import numpy as np

from mc import phys, pipes, scope

LEVEL = 'exploration'
X64 = True
RULE = ('models: one link: every kind in the claimed class {F, H, S, HH, HHH, '
        'SS, SSS, SH, SSH} x orthogonal axis frames (aligned, other '
        'handedness, oblique) x body pose(4) x anchor(2) x attached/free root; '
        'two links: all pairs of a 12-template sub-alphabet over both shapes; '
        'three links: all shapes x seeded class kinds. inputs: 5 angles per '
        'hinge in (-1.2,1.2), 3 values per slide, root poses incl. cube '
        'rotations, qd in {0, e_i, generic}. oracle: inverse(world_to_joint('
        'forward(q,qd))) = (q,qd) (positions for the whole class, velocities '
        'for free and single-hinge links, others classified as the listed '
        'upstream limitation); spring/positional: the (q,qd) reported after a '
        'step is the inverse image of the reported link poses. non-trivial = '
        'stack or rotated body with q != 0; distinct = (model, q, qd)')
ASSUMPTIONS = [
    'positions are compared at 1e-7 (arccos conditioning sqrt(eps)), '
    'velocities at 1e-9; root quaternions up to sign',
    'hinge-before-slide stacks and prismatic/stacked velocities are the '
    'documented upstream limitation (known finding, classified structurally)',
]
CLASS = ['H', 'S', 'HH', 'HHH', 'SS', 'SSS', 'SH', 'SSH']
OUTSIDE = ['HS', 'HSH']


def _models(tier, seed):
  specs = []
  for kind in CLASS + OUTSIDE:
    for a, p, b in itertools.product((0, 1, 2), range(4), range(2)):
      rng = scope.rng_for(seed, 'c08-1', kind, a, p, b)
      specs.append(phys.spec_of([scope.link(kind, -1, rng, aid=a, pose=p,
                                            anchor=b, geom=1)]))
  for p in range(4):
    rng = scope.rng_for(seed, 'c08-f', p)
    specs.append(phys.spec_of([scope.link('F', -1, rng, pose=p, geom=1)]))
  T = [(k, v) for k in ['H', 'S', 'HH', 'SH', 'SSH', 'HHH'] for v in (0, 1)]
  for sh in scope.shapes(2):
    R = T + [('F', 0)]
    for (k0, v0) in R:
      for (k1, v1) in (R if sh[1] == -1 else T):
        rng = scope.rng_for(seed, 'c08-2', sh, k0, v0, k1, v1)
        links = []
        for k, par, v in ((k0, -1, v0), (k1, sh[1], v1)):
          links.append(scope.link(k, par, rng, aid=(0, 2)[v], pose=(1, 3)[v],
                                  anchor=v if k != 'F' else 0, geom=1))
        specs.append(phys.spec_of(links))
  for sh in scope.shapes(3):
    for a in range(2 if tier == 'quick' else 8):
      rng = scope.rng_for(seed, 'c08-3', sh, a)
      links = []
      for i, p in enumerate(sh):
        k = 'F' if (p == -1 and rng.rand() < 0.4) else CLASS[
            int(rng.randint(len(CLASS)))]
        links.append(scope.link(k, p, rng, aid=int(rng.choice([0, 1, 2])),
                                pose=int(rng.choice([1, 3])),
                                anchor=int(rng.randint(2)) if k != 'F' else 0,
                                geom=1))
      specs.append(phys.spec_of(links))
  # level-grouping patterns of scan.tree (three roots with uneven child
  # counts), single-joint links
  stars = [sh for sh in phys.star_forests(6) if sh.count(-1) == 3 and
           len(sh) >= 5]
  if tier == 'quick':
    stars = [sh for sh in stars if sh in ((-1, 0, 0, -1, -1, 4),
                                          (-1, 0, -1, -1, 3, 3),
                                          (-1, 0, 0, -1, -1))]
  specs += phys.level_pattern_models(seed, stars, tag='c08lvl')
  for s in specs:
    s['actuators'] = []
    s['option'] = dict(timestep=0.002)
  return specs


def tasks(tier, seed):
  ts = []
  for k, g in phys.group_by_skeleton(_models(tier, seed), per_task=30):
    ts.append(dict(name='skel %s n=%d' % (k[:2], len(g)), specs=g,
                   cost=40 + len(g)))
  for pipe in ('spring', 'positional'):
    ts.append(dict(name='contact histories %s' % pipe, kind='contact',
                   pipe=pipe, cost=60))
  return ts


def _contact_scene(seed):
  rng = scope.rng_for(seed, 'c08contact')
  root = scope.link('F', -1, rng)
  root['geom'] = dict(type='sphere', size=[0.15], pos=None, quat=None,
                      collide=True)
  root['pos'] = [0, 0, 0.3]
  flag = scope.link('H', 0, rng, aid=2, pose=1, geom=1)
  return dict(links=[root, flag], actuators=[], option=dict(timestep=0.002),
              world_geoms=[dict(type='plane', size=[5, 5, 0.1], collide=True,
                                pos=[0, 0, 0])],
              custom=dict(elasticity=0.5))


def check_contact_histories(pipe, tier, seed, res):
  """Every step of short impact histories: the reported (q, qd) must be the
  inverse image of the reported (x, xd), also when a contact corrects the
  velocities."""
  import jax
  import jax.numpy as jp
  from brax import kinematics
  spec = _contact_scene(seed)
  sys, _ = scope.load(spec)
  p = pipes.module(pipe)
  T = 40

  def f(sys, q, qd):
    def body(st, _):
      st = p.step(sys, st, jp.zeros(0))
      j, jd, _, _ = kinematics.world_to_joint(sys, st.x, st.xd)
      q2, qd2 = kinematics.inverse(sys, j, jd)
      pen = st.x.pos[0, 2] - 0.15
      return st, (st.q, st.qd, q2, qd2, pen)
    return jax.lax.scan(body, p.init(sys, q, qd), (), length=T)[1]
  g = jax.jit(jax.vmap(f, in_axes=(None, 0, 0)))
  rng = scope.rng_for(seed, 'c08contactstates')
  n = 16
  Q = np.array([np.concatenate([rng.uniform(-0.2, 0.2, 2), [rng.uniform(
      0.16, 0.2)], scope.generic_quat(rng), rng.uniform(-1, 1, 1)])
      for _ in range(n)])
  D = np.array([np.concatenate([rng.uniform(-1, 1, 2), [rng.uniform(-3, -1)],
                                rng.uniform(-6, 6, 3), rng.uniform(-2, 2, 1)])
                for _ in range(n)])
  q, qd, q2, qd2, pen = [np.asarray(x) for x in g(phys.strip(sys), Q, D)]
  touched = int((pen.min(axis=1) < 0.0).sum())
  res['evaluations'] += n * T
  res['nontrivial'] += touched * T
  res['extra']['histories_with_contact'] = touched
  eq = np.abs(q - q2).max(axis=2)
  ed = np.abs(qd - qd2).max(axis=2)
  bad = (eq > 1e-9) | (ed > 1e-9)
  if bad.any():
    i, t = np.argwhere(bad)[0]
    res['violations'].append(dict(
        key='C08:reported-state:%s' % pipe,
        what='%s: at step %d of an impact history the reported (q,qd) is not '
        'the inverse image of the reported link poses (|dq|=%.3g |dqd|=%.3g)'
        % (pipe, t, eq[i, t], ed[i, t]),
        case=dict(kind='contact', pipe=pipe, seed=seed, tier=tier)))


_F = {}


def _rt():
  import jax
  from brax import kinematics
  if 'rt' not in _F:
    def f(sys, q, qd):
      x, xd = kinematics.forward(sys, q, qd)
      j, jd, _, _ = kinematics.world_to_joint(sys, x, xd)
      return kinematics.inverse(sys, j, jd)
    _F['rt'] = jax.jit(jax.vmap(f, in_axes=(None, 0, 0)))
  return _F['rt']


def _after_step(pipe):
  import jax
  import jax.numpy as jp
  from brax import kinematics
  if pipe not in _F:
    p = pipes.module(pipe)

    def f(sys, q, qd):
      st = p.step(sys, p.init(sys, q, qd), jp.zeros(sys.act_size()))
      j, jd, _, _ = kinematics.world_to_joint(sys, st.x, st.xd)
      q2, qd2 = kinematics.inverse(sys, j, jd)
      return st.q, st.qd, q2, qd2
    _F[pipe] = jax.jit(jax.vmap(f, in_axes=(None, 0, 0)))
  return _F[pipe]


def _layout(spec):
  """Per coordinate: (link, kind letter, velocity class claimed?)."""
  qinfo, dinfo = [], []
  for i, l in enumerate(spec['links']):
    if l['kind'] == 'F':
      qinfo += [(i, 'Fp')] * 3 + [(i, 'Fq')] * 4
      dinfo += [(i, True)] * 6
    else:
      for c in l['kind']:
        qinfo.append((i, c))
        dinfo.append((i, l['kind'] == 'H'))
  return qinfo, dinfo


def check_model(spec, tier, seed, res):
  sys, mj = scope.load(spec)
  nq, nv = scope.nq_nv(spec)
  rng = scope.rng_for(seed, 'c08g', str(scope.skeleton(spec)))
  root_quats = None
  if len(spec['links']) == 1 and spec['links'][0]['kind'] == 'F':
    root_quats = scope.cube_rotations() + [scope.generic_quat(rng)]
  qs, _ = scope.coord_grid(spec, rng, hk=5, sk=3, root_quats=root_quats,
                           cap=625 if tier == 'quick' else 3125, lo=-1.2,
                           hi=1.2)
  qinfo, dinfo = _layout(spec)
  supported = [phys.maximal_supported(l['kind']) for l in spec['links']]
  nt = any(len(l['kind']) > 1 or l.get('quat') is not None
           for l in spec['links'])
  CH = 256
  qd_set = np.concatenate([scope.qd_basis(nv), rng.uniform(-1, 1, (1, nv))])

  def report(key, what, q, qd):
    res['violations'].append(dict(key=key, what=what, case=dict(
        spec=spec, q=q.tolist(), qd=qd.tolist())))

  # positions on the whole grid (qd = 0), velocities on a sub-grid
  sub = qs[:: max(1, len(qs) // 24)]
  rows = [(q, np.zeros(nv)) for q in qs] + [(q, d) for q in sub
                                            for d in qd_set[1:]]
  Q = np.array([r[0] for r in rows])
  D = np.array([r[1] for r in rows])
  f = _rt()
  outs = []
  for s0 in range(0, len(Q), CH):
    a, b = pipes.pad([Q[s0:s0 + CH], D[s0:s0 + CH]], CH)
    o = f(phys.strip(sys), a, b)
    outs.append([np.asarray(x)[:len(Q[s0:s0 + CH])] for x in o])
  q2 = np.concatenate([o[0] for o in outs])
  d2 = np.concatenate([o[1] for o in outs])
  known = set()
  res['evaluations'] += len(Q)
  if nt:
    res['nontrivial'] += int((np.abs(Q).sum(1) > 0).sum())
  col_link = np.array([qi[0] for qi in qinfo])
  col_quat = np.array([qi[1] == 'Fq' for qi in qinfo])
  col_sup = np.array([supported[l] for l in col_link])
  eq = np.abs(q2 - Q)
  eq[:, col_quat] = 0.0
  if (eq[:, ~col_sup] > 1e-7).any():
    known.add('C08:position:hinge-before-slide-in-stack')
  bad = eq[:, col_sup] > 1e-7
  if bad.any():
    i = int(np.argwhere(bad.any(1))[0][0])
    c = int(np.argwhere(col_sup)[np.argwhere(bad[i])[0][0]][0])
    report('C08:position', 'joint position %d (link %d, %s) does not '
           'round-trip: %.9g -> %.9g (kinds=%s)' % (
               c, qinfo[c][0], qinfo[c][1], Q[i, c], q2[i, c],
               [l['kind'] for l in spec['links']]), Q[i], D[i])
    return
  off = 0
  for li, l in enumerate(spec['links']):
    if l['kind'] == 'F':
      a_, b_ = Q[:, off + 3:off + 7], q2[:, off + 3:off + 7]
      e = np.minimum(np.abs(a_ - b_).max(1), np.abs(a_ + b_).max(1))
      if (e > 1e-7).any():
        i = int(np.argmax(e))
        report('C08:position', 'root quaternion does not round-trip: %s -> '
               '%s' % (a_[i].tolist(), b_[i].tolist()), Q[i], D[i])
        return
      off += 7
    else:
      off += len(l['kind'])
  claimed_col = np.array([
      dinfo[c][1] and all(dinfo[k][1] for k in range(nv)
                          if _is_ancestor(spec, dinfo[k][0], dinfo[c][0]))
      for c in range(nv)])
  ed = np.abs(d2 - D)
  if (ed[:, ~claimed_col] > 1e-9).any():
    known.add('C08:velocity:prismatic-or-stacked-joint')
  bad = ed[:, claimed_col] > 1e-9
  if bad.any():
    i = int(np.argwhere(bad.any(1))[0][0])
    c = int(np.argwhere(claimed_col)[np.argwhere(bad[i])[0][0]][0])
    report('C08:velocity', 'joint velocity %d (link %d) does not '
           'round-trip: %.9g -> %.9g (kinds=%s)' % (
               c, dinfo[c][0], D[i, c], d2[i, c],
               [l['kind'] for l in spec['links']]), Q[i], D[i])
    return
  for k in known:
    res['violations'].append(dict(key=k, what='upstream limitation', case=dict(
        spec=spec, q=Q[0].tolist(), qd=D[0].tolist())))
  # spring / positional: reported (q, qd) are the inverse image of (x, xd)
  for pipe in ('spring', 'positional'):
    g = _after_step(pipe)
    sel = Q[len(qs):len(qs) + CH]
    seld = D[len(qs):len(qs) + CH]
    m = len(sel)
    a, b = pipes.pad([sel, seld], CH)
    o = [np.asarray(x)[:m] for x in g(phys.strip(sys), a, b)]
    res['evaluations'] += m
    if nt:
      res['nontrivial'] += m
    fin = np.isfinite(o[0]).all(1) & np.isfinite(o[1]).all(1)
    eq = np.abs(o[0] - o[2]).max(1)
    ed = np.abs(o[1] - o[3]).max(1)
    bad = fin & ((eq > 1e-12) | (ed > 1e-12))
    if bad.any():
      i = int(np.argmax(bad))
      report('C08:reported-state:%s' % pipe, '%s: reported (q,qd) after a '
             'step is not the inverse image of the reported link poses '
             '(|dq|=%.3g |dqd|=%.3g)' % (pipe, eq[i], ed[i]), sel[i], seld[i])
      return


def _is_ancestor(spec, a, b):
  """a is b or an ancestor of b."""
  while b >= 0:
    if a == b:
      return True
    b = spec['links'][b]['parent']
  return False


def run_task(task):
  res = dict(evaluations=0, nontrivial=0, violations=[], samples=[],
             outcomes=[], extra={})
  if task.get('kind') == 'contact':
    check_contact_histories(task['pipe'], task['tier'], task['seed'], res)
    res['samples'].append(dict(kind='impact histories', pipe=task['pipe']))
    res['outcomes'] = [task['name']]
    return res
  for spec in task['specs']:
    check_model(spec, task['tier'], task['seed'], res)
    if len([v for v in res['violations'] if v['what'] != 'upstream limitation'
            ]) > 4:
      break
  res['samples'].append(phys.describe(task['specs'][0]))
  res['outcomes'] = [task['name']]
  return res


def replay(rec):
  import jax.numpy as jp
  from brax import kinematics
  c = rec['case']
  if c.get('kind') == 'contact':
    res = dict(evaluations=0, nontrivial=0, violations=[], extra={})
    check_contact_histories(c['pipe'], c['tier'], c['seed'], res)
    return (not res['violations']), '\n'.join(v['what'] for v in
                                               res['violations']) or 'holds'
  spec = c['spec']
  sys, mj = scope.load(spec)
  q, qd = jp.asarray(c['q']), jp.asarray(c['qd'])
  x, xd = kinematics.forward(sys, q, qd)
  j, jd, _, _ = kinematics.world_to_joint(sys, x, xd)
  q2, qd2 = kinematics.inverse(sys, j, jd)
  res = dict(evaluations=0, nontrivial=0, violations=[])
  check_model(spec, 'quick', 0, res)
  mine = [v for v in res['violations'] if v['key'] == rec['key']]
  return (not mine), '%s\nq=%s -> %s\nqd=%s -> %s\n%s' % (
      scope.to_xml(spec), c['q'], np.asarray(q2).tolist(), c['qd'],
      np.asarray(qd2).tolist(), '\n'.join(v['what'] for v in mine[:3]))
