"""C15 episode accounting: explicit-state exploration of the real wrappers.

The explorer owns the environment's answer "is the underlying env done at this
sub-step": it is carried in the action vector of a scripted deterministic Env.
All histories of one configuration are stepped as members of ONE batch (level
synchronous tree expansion), so neighbouring members always have different
termination schedules.
"""

import itertools
import sys
import types

import numpy as np

LEVEL = 'model_checking'
X64 = True
RULE = ('for every (episode_length L in 1..6, action_repeat R in 1..3): '
        'level-synchronous expansion of ALL done-patterns (letters {0,1}^R per '
        'wrapped step) to the tier depth from 3 differently keyed root members, '
        'every member compared with a per-member reference model after every '
        'wrapped step (done, truncation, steps, reward, obs, pipeline_state, '
        'metrics, eval_metrics); then BFS with canonical de-duplication until '
        'the canonical state graph is closed; generate_unroll and '
        'Evaluator.run_evaluation driven by all 2^(L+R) time-indexed schedules '
        'as batch members. non-trivial = history with at least one termination '
        'or time-limit cut; distinct = distinct (L,R,root,history)')
ASSUMPTIONS = [
    'reference model: mc/props/c15.py:RefMember (wrapped termination = done '
    'flag after the LAST sub-step; rewards of all R sub-steps are summed; '
    'metrics of a wrapped step are those of its last sub-step)',
    'canonical form (env-time, steps, done, active, root) excludes the eval '
    'accumulators: they are only ever added to, never branched on',
    'brax.v1 is stubbed in sys.modules so that brax.training.acting imports',
]
NROOTS = 3


def _stub_v1():
  if 'brax.v1' in sys.modules and hasattr(sys.modules['brax.v1'], 'envs'):
    return
  m = types.ModuleType('brax.v1')
  e = types.ModuleType('brax.v1.envs')
  e.Env = object
  e.State = object
  e.Wrapper = object
  m.envs = e
  sys.modules['brax.v1'] = m
  sys.modules['brax.v1.envs'] = e


def make_env(R, carry=False):
  import jax
  from jax import numpy as jp
  from brax.envs.base import Env, State

  class Scripted(Env):
    """obs = (env-time, tag); done at sub-step i of a wrapped step iff
    action[i] > 0.5; reward = 2^-(env-time+1)."""

    def reset(self, rng):
      tag = rng[-1].astype(jp.float64)
      ps = {'t': jp.zeros(()), 'tag': tag, 'k': jp.zeros((), jp.int32)}
      obs = jp.stack([jp.zeros(()), tag])
      return State(ps, obs, jp.zeros(()), jp.zeros(()), {'m2': jp.zeros(())},
                   {})

    def step(self, state, action):
      ps = state.pipeline_state
      t = ps['t']
      i = ps['k'] % R
      done = (action[i] > 0.5).astype(jp.float64)
      if carry:
        # like the bundled envs that never write `done` themselves (fast,
        # reacher, pusher, ...): the incoming flag is carried through
        done = jp.maximum(state.done, done)
      reward = 2.0 ** (-(t + 1))
      nps = {'t': t + 1, 'tag': ps['tag'], 'k': ps['k'] + 1}
      obs = jp.stack([t + 1, ps['tag']])
      return state.replace(pipeline_state=nps, obs=obs, reward=reward,
                           done=done,
                           metrics=dict(state.metrics, m2=3.0 * (t + 1)))

    @property
    def observation_size(self):
      return 2

    @property
    def action_size(self):
      return R

    @property
    def backend(self):
      return 'scripted'

  return Scripted()


class RefMember:
  """Boring per-member reference for wrap(env, L, R) + EvalWrapper."""
  __slots__ = ('carry', 'L', 'R', 'tag', 'root', 't', 'k', 'steps', 'done', 'trunc',
               'reward', 'm2', 'active', 'ep_reward', 'ep_m2', 'ep_steps',
               'events')

  def __init__(self, L, R, tag, root, carry=False):
    self.L, self.R, self.tag, self.root = L, R, tag, root
    self.carry = carry
    self.t = 0
    self.k = 0
    self.steps = 0
    self.done = 0
    self.trunc = 0
    self.reward = 0.0
    self.m2 = 0.0
    self.active = 1
    self.ep_reward = 0.0
    self.ep_m2 = 0.0
    self.ep_steps = 0
    self.events = 0

  def copy(self):
    r = RefMember.__new__(RefMember)
    for a in RefMember.__slots__:
      setattr(r, a, getattr(self, a))
    return r

  def step(self, letter):
    if self.done:
      self.steps = 0     # counter restarts after every episode end
    rew = 0.0
    env_done = 0
    for i in range(self.R):
      rew += 2.0 ** (-(self.t + 1))
      self.t += 1
      self.k += 1
      env_done = max(env_done, letter[i]) if self.carry else letter[i]
    self.m2 = 3.0 * self.t
    self.reward = rew
    self.steps += self.R
    if self.steps >= self.L:
      self.done = 1
      self.trunc = 1 - env_done
    else:
      self.done = env_done
      self.trunc = 0
    if self.active:
      self.ep_steps = self.steps
      self.ep_reward += rew
      self.ep_m2 += self.m2
    self.active = self.active * (1 - self.done)
    if self.done:
      self.events += 1
      self.t = 0           # next observation / state are the ones from reset
      self.k = 0

  def canon(self):
    return (self.t, self.steps, self.done, self.active, self.root)


FIELDS = ('done', 'truncation', 'steps', 'reward', 'obs_t', 'obs_tag', 'ps_t',
          'ps_k', 'metric_reward', 'metric_m2', 'ep_reward', 'ep_m2',
          'active', 'ep_steps', 'first_obs_tag')


def _observe(state):
  """Real state -> dict of numpy arrays, one row per member."""
  em = state.info['eval_metrics']
  return {
      'done': np.asarray(state.done), 'truncation':
          np.asarray(state.info['truncation']),
      'steps': np.asarray(state.info['steps']),
      'reward': np.asarray(state.reward),
      'obs_t': np.asarray(state.obs)[:, 0],
      'obs_tag': np.asarray(state.obs)[:, 1],
      'ps_t': np.asarray(state.pipeline_state['t']),
      'ps_k': np.asarray(state.pipeline_state['k']),
      'metric_reward': np.asarray(state.metrics['reward']),
      'metric_m2': np.asarray(state.metrics['m2']),
      'ep_reward': np.asarray(em.episode_metrics['reward']),
      'ep_m2': np.asarray(em.episode_metrics['m2']),
      'active': np.asarray(em.active_episodes),
      'ep_steps': np.asarray(em.episode_steps),
      'first_obs_tag': np.asarray(state.info['first_obs'])[:, 1],
  }


def _expected(refs):
  g = lambda f: np.array([f(r) for r in refs], dtype=np.float64)
  return {
      'done': g(lambda r: r.done), 'truncation': g(lambda r: r.trunc),
      'steps': g(lambda r: r.steps), 'reward': g(lambda r: r.reward),
      'obs_t': g(lambda r: r.t), 'obs_tag': g(lambda r: r.tag),
      'ps_t': g(lambda r: r.t), 'ps_k': g(lambda r: r.k),
      'metric_reward': g(lambda r: r.reward), 'metric_m2': g(lambda r: r.m2),
      'ep_reward': g(lambda r: r.ep_reward), 'ep_m2': g(lambda r: r.ep_m2),
      'active': g(lambda r: r.active), 'ep_steps': g(lambda r: r.ep_steps),
      'first_obs_tag': g(lambda r: r.tag),
  }


class WrapSystem:
  """training.wrap(Scripted, L, R) + EvalWrapper, batch of members."""

  def __init__(self, L, R, seed=0, carry=False):
    import jax
    from jax import numpy as jp
    from brax.envs.wrappers import training
    self.jax, self.jp = jax, jp
    self.L, self.R = L, R
    self.carry = carry
    env = make_env(R, carry)
    self.wrapped = training.wrap(env, episode_length=L, action_repeat=R)
    self.env = training.EvalWrapper(self.wrapped)
    self.letters = [tuple(l) for l in itertools.product((0, 1), repeat=R)]
    self._step = jax.jit(self.env.step)
    self._reset = jax.jit(self.env.reset)
    self.keys = jax.random.split(jax.random.PRNGKey(17 + seed), NROOTS)

  def reset(self):
    st = self._reset(self.keys)
    tags = np.asarray(self.keys)[:, -1].astype(np.float64)
    refs = [RefMember(self.L, self.R, float(tags[i]), i, self.carry)
            for i in range(NROOTS)]
    return st, refs

  def expand(self, st, refs, hists):
    """Every member x every letter, as one batch step of the real env."""
    jp = self.jp
    nl = len(self.letters)
    n = len(refs)
    st2 = self.jax.tree.map(lambda x: jp.repeat(x, nl, axis=0), st)
    acts = jp.asarray(np.tile(np.array(self.letters, np.float64), (n, 1)))
    nst = self._step(st2, acts)
    nrefs, nh = [], []
    for r, h in zip(refs, hists):
      for l in self.letters:
        c = r.copy()
        c.step(l)
        nrefs.append(c)
        nh.append(h + (l,))
    return nst, nrefs, nh

  def compare(self, st, refs, hists, tag):
    obs = _observe(st)
    exp = _expected(refs)
    probs = []
    for f in FIELDS:
      a, b = obs[f].astype(np.float64), exp[f]
      if a.shape != b.shape:
        probs.append((f, 'shape %s vs %s' % (a.shape, b.shape), 0))
        continue
      bad = np.nonzero(~(np.abs(a - b) <= 1e-12))[0]
      for i in bad[:2]:
        probs.append((f, '%s L=%d R=%d member %d (root %d) history %s: '
                      '%s = %r, reference %r' %
                      (tag, self.L, self.R, i, refs[i].root, hists[i], f,
                       float(a[i]), float(b[i])), int(i)))
    return probs

  def select(self, st, idx):
    ix = self.jp.asarray(np.array(idx, np.int32))
    return self.jax.tree.map(lambda x: x[ix], st)


def _viol(res, L, R, seed, probs, hists, refs, kind='tree'):
  for f, what, i in probs[:6]:
    res['violations'].append(dict(
        key='C15:' + f, what=what,
        case=dict(kind=kind, L=L, R=R, seed=seed, root=refs[i].root,
                  carry=refs[i].carry,
                  history=[list(l) for l in hists[i]])))


def _explore(task, res):
  L, R, seed = task['L'], task['R'], task['seed']
  s = WrapSystem(L, R, seed, task.get('carry', False))
  st, refs = s.reset()
  hists = [()] * len(refs)
  probs = s.compare(st, refs, hists, 'after reset')
  res['states'] += len(refs)
  if probs:
    _viol(res, L, R, seed, probs, hists, refs)
    return
  depth = task['depth']
  seen = set(r.canon() for r in refs)
  # phase 1: full tree, no de-duplication
  for d in range(depth):
    st, refs, hists = s.expand(st, refs, hists)
    res['transitions'] += len(refs)
    res['states'] += len(refs)
    res['evaluations'] += len(refs)
    probs = s.compare(st, refs, hists, 'tree depth %d' % (d + 1))
    if probs:
      _viol(res, L, R, seed, probs, hists, refs)
      return
    seen |= set(r.canon() for r in refs)
  res['paths'] += len(refs)
  res['nontrivial'] += sum(1 for r in refs if r.events > 0)
  res['outcomes'] |= set((L, R, s.carry) + r.canon()[:4] for r in refs)
  mid = len(refs) // 2
  res['samples'].append(dict(L=L, R=R, root=refs[mid].root,
                             history=[list(l) for l in hists[mid]],
                             final=dict(t=refs[mid].t, steps=refs[mid].steps,
                                        done=refs[mid].done,
                                        ep_reward=refs[mid].ep_reward)))
  # phase 2: BFS with canonical de-duplication until closed
  # frontier := one representative per canonical state of the last level
  first = {}
  for i, r in enumerate(refs):
    first.setdefault(r.canon(), i)
  idx = sorted(first.values())
  st = s.select(st, idx)
  refs = [refs[i] for i in idx]
  hists = [hists[i] for i in idx]
  closed = False
  for d in range(task['bfs']):
    st, refs, hists = s.expand(st, refs, hists)
    res['transitions'] += len(refs)
    res['evaluations'] += len(refs)
    probs = s.compare(st, refs, hists, 'bfs level %d' % (d + 1))
    if probs:
      _viol(res, L, R, seed, probs, hists, refs)
      return
    new = {}
    for i, r in enumerate(refs):
      c = r.canon()
      if c not in seen and c not in new:
        new[c] = i
    if not new:
      closed = True
      break
    seen |= set(new)
    idx = sorted(new.values())
    st = s.select(st, idx)
    refs = [refs[i] for i in idx]
    hists = [hists[i] for i in idx]
    res['states'] += len(idx)
  res['extra']['canonical_states'] = len(seen)
  if not closed:
    res['caps'].append('L=%d R=%d: canonical graph not closed after %d levels'
                       % (L, R, task['bfs']))


def _schedules(L, R):
  """All time-indexed done tables over env-time 0..L+R-1."""
  n = L + R - 1
  return [tuple(b) for b in itertools.product((0, 1), repeat=n)]


def _unroll(task, res):
  """generate_unroll + Evaluator with all time-indexed schedules as members."""
  _stub_v1()
  import jax
  from jax import numpy as jp
  from brax.envs.wrappers import training
  from brax.training import acting
  L, R, seed = task['L'], task['R'], task['seed']
  scheds = _schedules(L, R)
  n = len(scheds)
  table = np.zeros((n, L + 2 * R + 1))
  for i, sc in enumerate(scheds):
    table[i, :len(sc)] = sc
  env = training.wrap(make_env(R), episode_length=L, action_repeat=R)

  def make_policy(tags):
    order = np.argsort(tags)
    stags = jp.asarray(tags[order])
    tab = jp.asarray(table[order])   # row j belongs to the j-th smallest tag

    def policy(obs, key):
      j = jp.searchsorted(stags, obs[:, 1])
      t = obs[:, 0].astype(jp.int32)
      cols = t[:, None] + jp.arange(R)[None, :]
      return jp.take_along_axis(tab[j], cols, axis=1), {}
    return policy, order

  def ref_run(tags, nsteps, order):
    # member m has tag tags[m]; its schedule is table row rank(m)
    rank = np.empty(n, np.int64)
    rank[order] = np.arange(n)
    refs = [RefMember(L, R, float(tags[m]), m) for m in range(n)]
    rows = []
    for _ in range(nsteps):
      row = []
      for m, r in enumerate(refs):
        t0 = r.t
        letter = tuple(int(x) for x in table[order][rank[m]][t0:t0 + R])
        obs_before = (r.t, r.tag)
        r.step(letter)
        row.append((obs_before, letter, r.reward, 1 - r.done, (r.t, r.tag),
                    r.trunc, r.steps))
      rows.append(row)
    return refs, rows

  # --- generate_unroll
  keys = jax.random.split(jax.random.PRNGKey(23 + seed), n)
  tags = np.asarray(keys)[:, -1].astype(np.float64)
  if len(set(tags.tolist())) != n:
    res['errors'] = ['tag collision in harness']
    return
  policy, order = make_policy(tags)
  nsteps = 3 * -(-L // R)
  st0 = jax.jit(env.reset)(keys)
  fin, data = acting.generate_unroll(env, st0, policy, jax.random.PRNGKey(5),
                                     nsteps, extra_fields=('truncation',
                                                           'steps'))
  refs, rows = ref_run(tags, nsteps, order)
  ob = np.asarray(data.observation)
  nob = np.asarray(data.next_observation)
  rew = np.asarray(data.reward)
  dis = np.asarray(data.discount)
  act = np.asarray(data.action)
  tr = np.asarray(data.extras['state_extras']['truncation'])
  stp = np.asarray(data.extras['state_extras']['steps'])
  bad = []
  for t in range(nsteps):
    for m in range(n):
      o, letter, r, d, no, trunc, steps = rows[t][m]
      got = (tuple(ob[t, m]), tuple(int(round(x)) if np.isfinite(x) else -1 for x in act[t, m]),
             float(rew[t, m]), float(dis[t, m]), tuple(nob[t, m]),
             float(tr[t, m]), float(stp[t, m]))
      want = (tuple(map(float, o)), letter, r, float(d),
              tuple(map(float, no)), float(trunc), float(steps))
      res['evaluations'] += 1
      res['transitions'] += 1
      if got != want and len(bad) < 4:
        bad.append(('unroll-transition', 'L=%d R=%d member %d step %d: got %r '
                    'reference %r' % (L, R, m, t, got, want), m))
      if t + 1 < nsteps and tuple(nob[t, m]) != tuple(ob[t + 1, m]) and len(
          bad) < 4:
        bad.append(('unroll-chain', 'L=%d R=%d member %d: next_observation[%d]'
                    ' %r != observation[%d] %r' % (L, R, m, t, tuple(nob[t, m]),
                                                   t + 1, tuple(ob[t + 1, m])),
                    m))
  res['paths'] += n
  res['states'] += n * nsteps
  res['nontrivial'] += sum(1 for r in refs if r.events > 0)
  for k, what, m in bad:
    res['violations'].append(dict(
        key='C15:' + k, what=what,
        case=dict(kind='unroll', L=L, R=R, seed=seed, member=m)))

  # --- Evaluator
  ekey = jax.random.PRNGKey(31 + seed)
  ev = acting.Evaluator(env, lambda params: pol_holder[0], num_eval_envs=n,
                        episode_length=L, action_repeat=R, key=ekey)
  _, unroll_key = jax.random.split(ekey)
  rkeys = jax.random.split(unroll_key, n)
  etags = np.asarray(rkeys)[:, -1].astype(np.float64)
  if len(set(etags.tolist())) != n:
    res['errors'] = ['tag collision in harness (evaluator)']
    return
  epolicy, eorder = make_policy(etags)
  pol_holder = [epolicy]
  mets = ev.run_evaluation(None, {}, aggregate_episodes=False)
  mets_agg_ev = acting.Evaluator(env, lambda params: epolicy, num_eval_envs=n,
                                 episode_length=L, action_repeat=R, key=ekey)
  mets_agg = mets_agg_ev.run_evaluation(None, {})
  erefs, _ = ref_run(etags, L // R, eorder)
  want_r = np.array([r.ep_reward for r in erefs])
  want_m = np.array([r.ep_m2 for r in erefs])
  want_s = np.array([r.ep_steps for r in erefs], np.float64)
  bad = []
  if L // R > 0:
    got_r = np.asarray(mets['eval/episode_reward'])
    got_m = np.asarray(mets['eval/episode_m2'])
    res['evaluations'] += n
    res['paths'] += n
    if got_r.shape != want_r.shape or not np.allclose(got_r, want_r, rtol=0,
                                                      atol=1e-12):
      i = int(np.argmax(np.abs(got_r - want_r))) if got_r.shape == \
          want_r.shape else 0
      bad.append(('eval-episode-reward', 'L=%d R=%d member %d: first-episode '
                  'reward %r, reference %r' % (L, R, i, got_r.tolist()[i],
                                               want_r[i])))
    if got_m.shape != want_m.shape or not np.allclose(got_m, want_m, rtol=0,
                                                      atol=1e-12):
      bad.append(('eval-episode-metric', 'L=%d R=%d first-episode metric sums '
                  'differ' % (L, R)))
    if abs(float(mets['eval/avg_episode_length']) - want_s.mean()) > 1e-12:
      bad.append(('eval-episode-length', 'L=%d R=%d avg_episode_length %r, '
                  'reference %r' % (L, R, float(mets['eval/avg_episode_length'
                                                      ]), want_s.mean())))
    if abs(float(mets_agg['eval/episode_reward']) - want_r.mean()) > 1e-12:
      bad.append(('eval-episode-reward', 'L=%d R=%d aggregated episode reward '
                  '%r, reference %r' % (L, R, float(mets_agg[
                      'eval/episode_reward']), want_r.mean())))
  for k, what in bad:
    res['violations'].append(dict(key='C15:' + k, what=what,
                                  case=dict(kind='unroll', L=L, R=R,
                                            seed=seed)))
  res['samples'].append(dict(kind='unroll+evaluator', L=L, R=R, members=n,
                             unroll_steps=nsteps))


def tasks(tier, seed):
  ts = []
  q = tier == 'quick'
  for L in range(1, 7):
    for R in range(1, 4):
      dec = 8 if q else 12     # sub-step decisions in the exhaustive tree
      depth = max(1, dec // R)
      ts.append(dict(name='tree L=%d R=%d' % (L, R), kind='tree', L=L, R=R,
                     depth=depth, bfs=40, cost=2 ** (R * depth)))
      ts.append(dict(name='tree-carry L=%d R=%d' % (L, R), kind='tree', L=L,
                     R=R, carry=True, depth=max(1, (dec - 2) // R), bfs=40,
                     cost=2 ** (R * max(1, (dec - 2) // R))))
      ts.append(dict(name='unroll L=%d R=%d' % (L, R), kind='unroll', L=L, R=R,
                     cost=2 ** (L + R) * 3))
  return ts


def run_task(task):
  res = dict(evaluations=0, nontrivial=0, states=0, transitions=0, paths=0,
             violations=[], samples=[], outcomes=set(), caps=[], extra={})
  if task['kind'] == 'tree':
    _explore(task, res)
  else:
    _unroll(task, res)
  res['outcomes'] = [repr(o) for o in res['outcomes']]
  return res


def vacuous(tot, tier):
  if len(tot['outcomes']) < 50:
    return 'only %d distinct canonical outcomes' % len(tot['outcomes'])
  return None


def replay(rec):
  c = rec['case']
  if c['kind'] == 'unroll':
    res = dict(evaluations=0, nontrivial=0, states=0, transitions=0, paths=0,
               violations=[], samples=[], outcomes=set(), caps=[], extra={})
    _unroll(dict(L=c['L'], R=c['R'], seed=c['seed']), res)
    return (not res['violations']), '\n'.join(v['what'] for v in
                                              res['violations'])
  # plain re-execution of one history as a batch of one member (plus the same
  # history in a batch with its roots) -- no explorer
  s = WrapSystem(c['L'], c['R'], c['seed'], c.get('carry', False))
  st, refs = s.reset()
  hists = [()] * len(refs)
  lines = []
  ok = True
  for letter in c['history']:
    jp = s.jp
    acts = jp.asarray(np.tile(np.array([letter], np.float64), (len(refs), 1)))
    st = s._step(st, acts)
    for r in refs:
      r.step(tuple(letter))
    hists = [h + (tuple(letter),) for h in hists]
    probs = s.compare(st, refs, hists, 'replay')
    lines.append('step %s -> %s' % (letter, [p[1] for p in probs] or 'agrees'))
    if probs:
      ok = False
      break
  return ok, '\n'.join(lines)


def determinism_case():
  s = WrapSystem(3, 2, 0)
  st, refs = s.reset()
  hists = [()] * len(refs)
  for _ in range(3):
    st, refs, hists = s.expand(st, refs, hists)
  o = _observe(st)
  return {k: v.tolist() for k, v in o.items()}
