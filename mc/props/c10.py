"""C10 contact geometry of primitive pairs vs closed forms."""

import itertools

import numpy as np

from mc import scope

LEVEL = 'exploration'
X64 = True
RULE = ('scenes: a ground plane (axis-aligned or tilted) + 2-3 free bodies '
        'with sphere/capsule geoms in every type assignment (plus a body that '
        'carries two geoms, and a capsule written as a fromto geom inside a '
        'rotated jointless child body, which the loader fuses); per scene 2^3 parameter sets (local offset, local '
        'orientation, sizes) with distinct per-geom elasticities; link poses: '
        '(24 cube rotations + generic)^2 orientations x 5 designed separations '
        '{-0.3,-0.05,0,0.05,0.7} x {axis, generic} directions (+ third body '
        'pose). Every candidate row of contact.get is compared with the '
        'closed-form signed distance, normal direction, owning links and mean '
        'elasticity. non-trivial = pose with a non-identity link rotation and '
        'a geom with local offset/orientation; distinct = distinct (scene, '
        'parameters, pose)')
ASSUMPTIONS = [
    'closed forms: point-plane, point-segment, segment-segment (mc/props/c10.py)',
    'normals are compared at 1e-3 only where well conditioned (closest points >= 0.02 apart and, '
    'for capsule pairs, axes not parallel)',
    'capsule-plane rows are matched as the set of the two end-cap distances',
]
TOL_D = 1e-9
TOL_N = 1e-3   # mjx closest-point routines carry 1e-6 regularisers: the
# direction error is ~5e-6/d, so normals are compared where d >= 0.02


def _rot(q):
  from mc.mjref import quat_to_mat
  return quat_to_mat(q)


def _qmul(a, b):
  w1, x1, y1, z1 = a
  w2, x2, y2, z2 = b
  return np.array([w1 * w2 - x1 * x2 - y1 * y2 - z1 * z2,
                   w1 * x2 + x1 * w2 + y1 * z2 - z1 * y2,
                   w1 * y2 - x1 * z2 + y1 * w2 + z1 * x2,
                   w1 * z2 + x1 * y2 - y1 * x2 + z1 * w2])


def seg_seg(p1, q1, p2, q2):
  """Closest points of two segments (Ericson)."""
  d1, d2, r = q1 - p1, q2 - p2, p1 - p2
  a, e, f = d1 @ d1, d2 @ d2, d2 @ r
  c = d1 @ r
  b = d1 @ d2
  den = a * e - b * b
  s = np.clip((b * f - c * e) / den, 0, 1) if den > 1e-14 else 0.0
  t = (b * s + f) / e
  if t < 0:
    t, s = 0.0, np.clip(-c / a, 0, 1)
  elif t > 1:
    t, s = 1.0, np.clip((b - c) / a, 0, 1)
  return p1 + d1 * s, p2 + d2 * t


def pt_seg(p, a, b):
  d = b - a
  t = np.clip((p - a) @ d / (d @ d), 0, 1)
  return a + t * d


def scenes(tier):
  two = [''.join(s) for s in itertools.product('SC', repeat=2)]
  three = [''.join(s) for s in itertools.product('SC', repeat=3)]
  if tier == 'quick':
    three = ['SCC', 'CSS', 'CCS']
  out = [(s, False) for s in two + three]
  out.append(('SC', True))   # first body carries an extra sphere geom
  out.append(('SC', 'fused'))  # capsule given by fromto inside a rotated
  return out                   # jointless child body (loader fuses it)


def build(sc, multi, pset, seed, tilt):
  """spec for scene string sc with parameter set bits pset=(off,rot,size)."""
  rng = scope.rng_for(seed, 'c10', sc, multi, pset, tilt)
  links = []
  el = [0.35]  # plane elasticity
  for i, c in enumerate(sc):
    l = scope.link('F', -1, rng)
    l['pos'] = [0.0, 0.0, 1.0 + i]
    g = dict(type='sphere' if c == 'S' else 'capsule', collide=True)
    r = 0.1 if pset[2] == 0 else float(rng.uniform(0.05, 0.25))
    hl = 0.2 if pset[2] == 0 else float(rng.uniform(0.1, 0.4))
    g['size'] = [r] if c == 'S' else [r, hl]
    g['pos'] = list(map(float, rng.uniform(-0.2, 0.2, 3))) if pset[0] else None
    g['quat'] = list(map(float, scope.generic_quat(rng))) if pset[1] else None
    geoms = [g]
    el.append(float(rng.choice([0.0, 0.3, 0.9]) + 0.01 * (i + 1)))
    if multi == 'fused' and c == 'C':
      # same capsule, but written as <body quat pos><geom fromto/></body>
      bq = scope.generic_quat(rng)
      bp = rng.uniform(-0.2, 0.2, 3)
      a, b = rng.uniform(-0.2, 0.2, 3), rng.uniform(-0.2, 0.2, 3)
      Rb = _rot(bq)
      A, B = bp + Rb @ a, bp + Rb @ b
      ax = (B - A) / np.linalg.norm(B - A)
      lq = np.concatenate([[1 + ax[2]], np.cross([0, 0, 1.0], ax)])
      lq /= np.linalg.norm(lq)
      g = dict(type='capsule', collide=True, size=[r, float(np.linalg.norm(
          B - A) / 2)], pos=list(map(float, (A + B) / 2)),
               quat=list(map(float, lq)))
      geoms = [g]
      l['extra_xml'] = [
          '<body name="fz%d" pos="%s" quat="%s"><geom name="gfz%d" '
          'type="capsule" size="%r" fromto="%s %s"/></body>' % (
              i, scope._fmt(bp), scope._fmt(bq), i, r, scope._fmt(a),
              scope._fmt(b))]
      l['geoms_ref'] = geoms
      l['geoms'] = []
      del l['geom']
      links.append(l)
      continue
    if multi is True and i == 0:
      g2 = dict(type='sphere', size=[0.07], collide=True,
                pos=[0.3, -0.2, 0.1], quat=None)
      geoms.insert(0, g2)
      el.insert(1, 0.77)
    l['geoms'] = geoms
    del l['geom']
    links.append(l)
  plane = dict(type='plane', size=[5, 5, 0.1], collide=True, pos=[0, 0, 0],
               quat=list(map(float, scope.generic_quat(rng))) if tilt else None)
  spec = dict(links=links, world_geoms=[plane],
              custom=dict(elasticity=el))
  return spec


def _geoms_of(spec):
  """[(body index (-1 world), type, size, local pos, local quat)] in MuJoCo
  geom order (world geoms first, then bodies depth-first)."""
  out = []
  for g in spec['world_geoms']:
    out.append((-1, g['type'], g['size'], np.array(g['pos'] or [0, 0, 0.]),
                np.array(g['quat'] or [1, 0, 0, 0.])))
  for i, l in enumerate(spec['links']):
    for g in l.get('geoms_ref', l['geoms']):
      out.append((i, g['type'], g['size'], np.array(g['pos'] or [0, 0, 0.]),
                  np.array(g['quat'] or [1, 0, 0, 0.])))
  return out


def closed_form(spec, xpos, xquat):
  """dict (g1,g2) -> list of (dist, normal or None, p1, p2)."""
  G = _geoms_of(spec)
  W = []
  for (b, typ, size, lp, lq) in G:
    if b < 0:
      P, Q = np.zeros(3), np.array([1, 0, 0, 0.])
    else:
      P, Q = xpos[b], xquat[b]
    R = _rot(Q)
    W.append((typ, size, P + R @ lp, R @ _rot(lq)))
  # a fused from-to geom went through the loader's six-decimal printing
  loose = 5e-6 if any('geoms_ref' in l for l in spec['links']) else 0.0
  out = {}
  for i, j in itertools.combinations(range(len(G)), 2):
    if G[i][0] == G[j][0]:
      continue            # same body: filtered
    ti, si, ci, Ri = W[i]
    tj, sj, cj, Rj = W[j]
    rows = []
    if ti == 'plane':
      n = Ri[:, 2]
      if tj == 'sphere':
        rows.append(((cj - ci) @ n - sj[0], n, max(TOL_D, loose)))
      else:
        ax = Rj[:, 2] * sj[1]
        for e in (cj + ax, cj - ax):
          rows.append(((e - ci) @ n - sj[0], n, max(TOL_D, loose)))
    else:
      if ti == 'sphere' and tj == 'sphere':
        p1, p2 = ci, cj
        par = False
      elif ti == 'sphere':
        ax = Rj[:, 2] * sj[1]
        p1, p2 = ci, pt_seg(ci, cj - ax, cj + ax)
        par = False
      elif tj == 'sphere':
        ax = Ri[:, 2] * si[1]
        p1, p2 = pt_seg(cj, ci - ax, ci + ax), cj
        par = False
      else:
        a1, a2 = Ri[:, 2] * si[1], Rj[:, 2] * sj[1]
        p1, p2 = seg_seg(ci - a1, ci + a1, cj - a2, cj + a2)
        par = abs(abs(Ri[:, 2] @ Rj[:, 2]) - 1) < 1e-6
      d = np.linalg.norm(p2 - p1)
      n = (p2 - p1) / d if (d >= 0.02 and not par) else None
      # tolerance: mjx regularises its closest-point routines with 1e-6
      # terms (error ~ (5e-6)^2/d, and ~2e-6 when the centre lines touch)
      rows.append((d - si[0] - sj[0], n, max(loose, 1e-7 if d >= 1e-3
                                             else 1e-5)))
    out[(i, j)] = rows
  return out


def poses(spec, seed, tier):
  """List of (xpos [n,3], xquat [n,4]) link poses."""
  rng = scope.rng_for(seed, 'c10poses', str([
      l.get('geoms_ref', l['geoms'])[0]['type'] for l in spec['links']]))
  rots = scope.cube_rotations() + [scope.generic_quat(rng)]
  if tier == 'quick':
    rots = rots[::3] + [rots[-1]]
  n = len(spec['links'])
  r = [l.get('geoms_ref', l['geoms'])[-1]['size'][0] for l in spec['links']]
  out = []
  dirs = [np.array([1.0, 0, 0]), scope.unit(rng.normal(size=3)),
          np.array([0, 0, 1.0])]
  for qa, qb in itertools.product(rots, rots):
    for sep in (-0.3, -0.05, 0.0, 0.05, 0.7):
      for d in dirs[:2] if tier == 'quick' else dirs:
        pa = np.array([0.1, -0.2, r[0] + rng.uniform(-0.3, 0.7)])
        pb = pa + d * (r[0] + r[1] + sep)
        xp = [pa, pb]
        xq = [qa, qb]
        if n == 3:
          xp.append(pb + scope.unit(rng.normal(size=3)) * rng.uniform(0.1, 0.9))
          xq.append(rots[rng.randint(len(rots))])
        out.append((np.array(xp), np.array(xq)))
  return out


_GET = {}


def _get_fn():
  import jax
  from brax import contact
  from brax.base import Transform
  if 'f' not in _GET:
    def f(sys, pos, rot):
      c = contact.get(sys, Transform(pos=pos, rot=rot))
      return (c.dist, c.frame[:, 0], c.geom1, c.geom2, c.link_idx[0],
              c.link_idx[1], c.elasticity)
    _GET['f'] = jax.jit(jax.vmap(f, in_axes=(None, 0, 0)))
  return _GET['f']


def check_scene(spec, seed, tier, res, tag):
  from mc import phys
  sys, mj = scope.load(spec)
  P = poses(spec, seed, tier)
  xp = np.array([p[0] for p in P])
  xq = np.array([p[1] for p in P])
  f = _get_fn()
  CH = 1024
  outs = []
  for s in range(0, len(P), CH):
    a, b = xp[s:s + CH], xq[s:s + CH]
    m = len(a)
    if m < CH:
      a = np.concatenate([a, np.repeat(a[-1:], CH - m, 0)])
      b = np.concatenate([b, np.repeat(b[-1:], CH - m, 0)])
    o = f(phys.strip(sys), a, b)
    outs.append([np.asarray(x)[:m] for x in o])
  dist, nrm, g1, g2, l1, l2, el = [np.concatenate([o[i] for o in outs])
                                   for i in range(7)]
  G = _geoms_of(spec)
  els = spec['custom']['elasticity']
  nt_model = any(g[3].any() or (g[4] != [1, 0, 0, 0]).any() for g in G)
  for k in range(len(P)):
    want = closed_form(spec, xp[k], xq[k])
    res['evaluations'] += 1
    if nt_model and (xq[k][:, 0] != 1).any():
      res['nontrivial'] += 1
    rows = {}
    flipped = {}
    for r in range(dist.shape[1]):
      a, b = int(g1[k, r]), int(g2[k, r])
      # mjx orders a pair by geom type; the reference is keyed by index order
      rows.setdefault((min(a, b), max(a, b)), []).append(r)
      flipped[r] = a > b
    case = dict(spec=spec, xpos=xp[k].tolist(), xquat=xq[k].tolist(), tag=tag)
    if set(rows) != set(want):
      res['violations'].append(dict(
          key='C10:candidate-pairs', what='candidate geom pairs %s, expected %s'
          % (sorted(rows), sorted(want)), case=case))
      return
    for pair, rr in rows.items():
      w = want[pair]
      if len(rr) != len(w):
        res['violations'].append(dict(
            key='C10:candidate-count', what='pair %s has %d rows, expected %d'
            % (pair, len(rr), len(w)), case=case))
        return
      gd = sorted(float(dist[k, r]) for r in rr)
      wd = sorted(x[0] for x in w)
      if not np.allclose(gd, wd, rtol=0, atol=max(x[2] for x in w)):
        res['violations'].append(dict(
            key='C10:dist:%s-%s' % (G[pair[0]][1], G[pair[1]][1]),
            what='pair %s (%s,%s): dist %s, closed form %s' %
            (pair, G[pair[0]][1], G[pair[1]][1], gd, wd), case=case))
        return
      for r in rr:
        n = w[0][1]
        if n is not None and flipped[r]:
          n = -n
        if n is not None and not np.abs(nrm[k, r] - n).max() <= TOL_N:
          res['violations'].append(dict(
              key='C10:normal:%s-%s' % (G[pair[0]][1], G[pair[1]][1]),
              what='pair %s: normal %s, expected %s (first geom to second)' %
              (pair, nrm[k, r].tolist(), n.tolist()), case=case))
          return
        own = (G[pair[0]][0], G[pair[1]][0])
        if flipped[r]:
          own = own[::-1]
        if (int(l1[k, r]), int(l2[k, r])) != own:
          res['violations'].append(dict(
              key='C10:link_idx', what='pair %s attributed to links (%d,%d), '
              'geoms belong to (%d,%d)' % (pair, l1[k, r], l2[k, r],
                                           own[0], own[1]),
              case=case))
          return
        we = 0.5 * (els[pair[0]] + els[pair[1]])
        if not abs(float(el[k, r]) - we) <= 1e-9:
          res['violations'].append(dict(
              key='C10:elasticity', what='pair %s elasticity %r, mean of the '
              'two geoms %r' % (pair, float(el[k, r]), we), case=case))
          return


def tasks(tier, seed):
  ts = []
  for sc, multi in scenes(tier):
    ts.append(dict(name='scene %s%s' % (sc, {False: '', True: '+', 'fused':
                                            '-fused'}[multi]), sc=sc,
                   multi=multi, cost=10 * len(sc) ** 2))
  return ts


def run_task(task):
  res = dict(evaluations=0, nontrivial=0, violations=[], samples=[],
             outcomes=[], extra={})
  tier, seed = task['tier'], task['seed']
  psets = list(itertools.product((0, 1), repeat=3))
  if tier == 'quick':
    psets = [(0, 0, 0), (1, 1, 1), (1, 0, 1), (0, 1, 0)]
  for pi, pset in enumerate(psets):
    tilt = pi % 2 == 1
    spec = build(task['sc'], task['multi'], pset, seed, tilt)
    nv = len(res['violations'])
    check_scene(spec, seed, tier, res, '%s %s' % (task['name'], pset))
    if len(res['violations']) > nv + 3:
      break
  res['samples'].append(dict(scene=task['name'],
                             geoms=[(g[0], g[1], list(g[2])) for g in
                                    _geoms_of(spec)]))
  res['outcomes'] = [task['name']]
  return res


def replay(rec):
  c = rec['case']
  res = dict(evaluations=0, nontrivial=0, violations=[])
  spec = c['spec']
  import jax.numpy as jp
  from brax import contact
  from brax.base import Transform
  sys, mj = scope.load(spec)
  xp, xq = np.array(c['xpos']), np.array(c['xquat'])
  ct = contact.get(sys, Transform(pos=jp.asarray(xp), rot=jp.asarray(xq)))
  want = closed_form(spec, xp, xq)
  lines = []
  ok = True
  G = _geoms_of(spec)
  els = spec['custom']['elasticity']
  for r in range(len(ct.dist)):
    a, b = int(ct.geom1[r]), int(ct.geom2[r])
    pair = (min(a, b), max(a, b))
    flip = a > b
    w = want.get(pair)
    lines.append('row %d pair %s dist %.12g normal %s links (%d,%d) el %.4g | '
                 'closed form %s' % (r, pair, float(ct.dist[r]),
                                     np.asarray(ct.frame[r, 0]).tolist(),
                                     int(ct.link_idx[0][r]),
                                     int(ct.link_idx[1][r]),
                                     float(ct.elasticity[r]),
                                     [(float(x[0]), None if x[1] is None else
                                       x[1].tolist()) for x in (w or [])]))
    if w is None or not any(abs(float(ct.dist[r]) - x[0]) <= x[2] for x in w):
      ok = False
    elif w[0][1] is not None and np.abs(np.asarray(ct.frame[r, 0]) -
                                        (-w[0][1] if flip else w[0][1])
                                        ).max() > TOL_N:
      ok = False
    if w is not None:
      own = (G[pair[0]][0], G[pair[1]][0])
      if (int(ct.link_idx[0][r]), int(ct.link_idx[1][r])) != (
          own[::-1] if flip else own):
        ok = False
      if abs(float(ct.elasticity[r]) - 0.5 * (els[pair[0]] + els[pair[1]])
             ) > 1e-9:
        ok = False
  return ok, '\n'.join(lines)
