"""C03 differentiability: gradients finite everywhere (incl. singular inputs)
and equal to central differences away from switching."""

import numpy as np

from mc import phys, pipes, scope

LEVEL = 'exploration'
X64 = True
RULE = ('models with orthogonal stacked axes (aligned / other handedness / '
        'oblique frames): supported stacks for all three pipelines, every '
        'hinge/slide mix additionally for the generalized pipeline; wide '
        'limits, motor + position actuators with control range, a ground '
        'plane far below on free-rooted models, and two zero-gravity copies '
        '(exact rest: every relative velocity at joints and inactive contact '
        'candidates is exactly 0). every gradient is computed by two '
        'programs - the system passed as a jit argument, and the system '
        'closed over as a compile-time constant (how environments use the '
        'pipelines; XLA folds 0/0 patterns differently) - both must be finite '
        'and agree to 1e-6. inputs: the singular set '
        '(qd=0; q=0; each hinge at 0; axis-aligned root rotations; coincident '
        'anchors; ctrl=0 and on a range bound) where the gradient must be '
        'finite, and seeded regular points where it must equal the central '
        'difference (h=1e-6) within 1e-4(1+|g|). loss = fixed weighted sum of '
        'x.pos, xd.vel, q, qd after n steps (lax.scan), n in {1,2} quick / '
        '{1,2,5} thorough. non-trivial = every (model, pipeline, steps, point); '
        'distinct = the same tuples')
ASSUMPTIONS = [
    'finite differences are a numerical oracle: band 1e-4(1+|g|); a '
    'coordinate is compared only where central differences at h = 1e-5, 1e-6, '
    '1e-7 agree to 1e-5 (smoothness at the stencil scale); the numbers of '
    'compared / skipped coordinates are in the evidence',
    'regular points are >= 0.2 rad / 5 cm away from every limit and contact',
]


def _models(tier, seed):
  combos = [((-1,), ('F',), True), ((-1,), ('H',), True), ((-1,), ('SH',), True),
            ((-1, 0), ('F', 'H'), True), ((-1,), ('HHH',), True),
            ((-1, 0), ('SS', 'H'), True), ((-1, 0), ('F', 'SSH'), True),
            ((-1,), ('SSS',), True),
            ((-1,), ('HS',), False), ((-1,), ('HSH',), False),
            ((-1, 0), ('F', 'SHS'), False)]
  if tier != 'quick':
    combos += [((-1, 0, 1), ('F', 'HH', 'S'), True),
               ((-1, 0, 0), ('H', 'H', 'SH'), True),
               ((-1, -1), ('S', 'F'), True),
               ((-1, 0), ('HH', 'HHH'), True), ((-1, 0), ('SHH', 'HS'), False),
               ((-1, 0, 1), ('HS', 'SH', 'H'), False)]
  out = []
  combos = [c + (False,) for c in combos]
  combos += [((-1,), ('F',), True, True), ((-1, 0), ('F', 'H'), True, True)]
  for mi, (sh, ks, sup, zero_g) in enumerate(combos):
    rng = scope.rng_for(seed, 'c03', mi)
    links = []
    for i, (k, p) in enumerate(zip(ks, sh)):
      # coincident anchors on the first model of each kind: no pose, no anchor
      l = scope.link(k, p, rng, aid=(0, 1, 2)[(mi + i) % 3],
                     pose=0 if (mi % 2 == 0 and i > 0) else (1 if i else 2),
                     anchor=0, geom=1, passive=3, limits=2)
      links.append(l)
    s = phys.spec_of(links)
    joints = [(a, b) for a, l in enumerate(links) if l['kind'] != 'F'
              for b in range(len(l['kind']))]
    s['actuators'] = [dict(joint=list(joints[-1]), kind='motor', gear=2.0,
                           ctrlrange=[-1.0, 0.7]),
                      dict(joint=list(joints[0]), kind='position', kp=4.0)
                      ] if joints else []
    if not joints:
      # a lone free body: a sphere at the body origin, so that a body at rest
      # keeps EXACTLY zero angular velocity (the 0/0 case of the integrators)
      links[0]['geom'] = dict(type='sphere', size=[0.1], pos=None, quat=None)
      links[0]['quat'] = None
    s['option'] = dict(timestep=0.002)
    if zero_g:
      # no gravity: a body at rest stays EXACTLY at rest, so every relative
      # velocity and displacement at the (inactive) contact candidates and
      # joints is exactly zero - the 0/0 case of their normalisations
      s['option']['gravity'] = [0.0, 0.0, 0.0]
    if links[0]['kind'] == 'F':
      for l in links:
        l['geom'] = dict(l['geom'], collide=True)
      s['world_geoms'] = [dict(type='plane', size=[5, 5, 0.1], collide=True,
                               pos=[0, 0, -5.0])]
    out.append((s, sup))
  return out


def tasks(tier, seed):
  ts = []
  steps = (1, 2) if tier == 'quick' else (1, 2, 5)
  for mi, (s, sup) in enumerate(_models(tier, seed)):
    for pipe in pipes.NAMES:
      if pipe != 'generalized' and not sup:
        continue
      for n in steps:
        if tier == 'quick' and n == 1 and pipe != 'generalized':
          continue
        ts.append(dict(name='m%d %s n=%d' % (mi, pipe, n), model=mi,
                       pipe=pipe, steps=n,
                       cost={'generalized': 30, 'spring': 45,
                             'positional': 120}[pipe] * n))
  return ts


def _points(spec, seed, tier):
  nq, nv = scope.nq_nv(spec)
  nu = len(spec['actuators'])
  rng = scope.rng_for(seed, 'c03pts', str(scope.skeleton(spec)))

  def base(scale, quat=None):
    q = []
    for l in spec['links']:
      if l['kind'] == 'F':
        q += list(rng.uniform(-0.3, 0.3, 3)) + list(
            quat if quat is not None else scope.generic_quat(rng))
      else:
        q += list(rng.uniform(-scale, scale, len(l['kind'])))
    return np.array(q)
  sing = []
  cube = scope.cube_rotations()
  sing.append(('rest q=0', base(0.0, cube[0]), np.zeros(nv), np.zeros(nu)))
  sing.append(('qd=0', base(0.8), np.zeros(nv), rng.uniform(-0.5, 0.5, nu)))
  sing.append(('q=0', base(0.0, cube[5]), rng.uniform(-1, 1, nv),
               np.zeros(nu)))
  for k in (3, 9, 17, 22):
    sing.append(('axis-aligned root %d' % k, base(0.5, cube[k]),
                 rng.uniform(-1, 1, nv), rng.uniform(-0.5, 0.5, nu)))
  c = np.zeros(nu)
  if nu:
    c[0] = 0.7
  sing.append(('ctrl on bound', base(0.5), rng.uniform(-1, 1, nv), c))
  # each non-free coordinate at exactly 0 with the others generic
  off = 0
  for l in spec['links']:
    w = 7 if l['kind'] == 'F' else len(l['kind'])
    if l['kind'] != 'F':
      for j in range(w):
        q = base(0.7)
        q[off + j] = 0.0
        sing.append(('coordinate %d = 0' % (off + j), q,
                     rng.uniform(-1, 1, nv), rng.uniform(-0.5, 0.5, nu)))
    off += w
  reg = []
  for i in range(3 if tier == 'quick' else 12):
    reg.append(('regular %d' % i, base(0.9), rng.uniform(-1, 1, nv),
                rng.uniform(-0.6, 0.5, nu)))
  # limits that are active during the whole rollout (no switching): every
  # limited coordinate 0.25 beyond its upper bound, small velocities
  q = base(0.5)
  off = 0
  any_lim = False
  for l in spec['links']:
    w = 7 if l['kind'] == 'F' else len(l['kind'])
    if l['kind'] != 'F':
      for j, r in enumerate(l['range']):
        if r is not None:
          q[off + j] = r[1] + 0.25
          any_lim = True
    off += w
  if any_lim:
    reg.append(('all limits active', q, rng.uniform(-0.05, 0.05, nv),
                np.zeros(nu)))
  return sing, reg


_F = {}


def _fns(pipe, n):
  import jax
  import jax.numpy as jp
  key = (pipe, n)
  if key not in _F:
    p = pipes.module(pipe)

    def loss(sys, q, qd, c, w):
      st = p.init(sys, q, qd)

      def body(s, _):
        return p.step(sys, s, c), None
      st = jax.lax.scan(body, st, (), length=n)[0]
      flat = jp.concatenate([st.x.pos.ravel(), st.xd.vel.ravel(), st.q, st.qd])
      return jp.dot(w[:flat.shape[0]], flat)
    g = jax.jit(jax.vmap(jax.grad(loss, argnums=(1, 2, 3)),
                         in_axes=(None, 0, 0, 0, None)))
    f = jax.jit(jax.vmap(loss, in_axes=(None, 0, 0, 0, None)))

    def closed(sys):
      # the way environments use the pipelines: the system is a compile-time
      # constant closed over by the jitted function. XLA simplifies such a
      # program differently from one that receives the system as an argument
      # (a 0/0 in a backward pass can be folded away in one and not in the
      # other), so finiteness is judged on both.
      return jax.jit(jax.vmap(
          jax.grad(lambda q, qd, c, w: loss(sys, q, qd, c, w),
                   argnums=(0, 1, 2)), in_axes=(0, 0, 0, None)))
    _F[key] = (g, f, closed)
  return _F[key]


def run_task(task):
  import jax.numpy as jp
  res = dict(evaluations=0, nontrivial=0, violations=[], samples=[],
             outcomes=[], extra={})
  tier, seed = task['tier'], task['seed']
  spec, sup = _models(tier, seed)[task['model']]
  pipe, n = task['pipe'], task['steps']
  sys, _ = scope.load(spec)
  s = phys.strip(sys)
  nq, nv = scope.nq_nv(spec)
  nu = len(spec['actuators'])
  sing, reg = _points(spec, seed, tier)
  pts = sing + reg
  rng = np.random.RandomState(5)
  w = rng.uniform(0.2, 1.0, 400) * rng.choice([-1, 1], 400)
  g, f, closed = _fns(pipe, n)
  P = 32
  Q, D, C = pipes.pad([np.array([p[1] for p in pts]),
                       np.array([p[2] for p in pts]),
                       np.array([p[3] for p in pts]).reshape(len(pts), nu)], P)
  gq, gd, gc = [np.asarray(x)[:len(pts)] for x in g(s, Q, D, C, jp.asarray(w))]
  # the same gradients from the program with the system closed over
  kq, kd, kc = [np.asarray(x)[:len(pts)]
                for x in closed(s)(Q, D, C, jp.asarray(w))]
  case0 = dict(model=task['model'], pipe=pipe, steps=n, seed=seed, tier=tier)
  for i, pt in enumerate(pts):
    res['evaluations'] += 1
    res['nontrivial'] += 1
    fin = all(np.isfinite(a[i]).all() for a in (gq, gd, gc, kq, kd, kc))
    if fin:
      ka = np.concatenate([kq[i], kd[i], kc[i]])
      ga = np.concatenate([gq[i], gd[i], gc[i]])
      if not np.abs(ka - ga).max() <= 1e-6 * (1 + np.abs(ga).max()):
        res['violations'].append(dict(
            key='C03:gradient-depends-on-compilation:%s' % pipe,
            what='%s, %d step(s): gradient at "%s" (kinds=%s) differs between '
            'the program with the system closed over and with the system as '
            'an argument by %.3g' % (pipe, n, pt[0], [l['kind'] for l in
                                                      spec['links']],
                                     np.abs(ka - ga).max()),
            case=dict(case0, point=pt[0])))
        return res
    if not fin:
      arg_ok = all(np.isfinite(a[i]).all() for a in (gq, gd, gc))
      bq, bd, bc = (kq, kd, kc) if arg_ok else (gq, gd, gc)
      res['violations'].append(dict(
          key='C03:non-finite-gradient:%s' % pipe,
          what='%s, %d step(s): gradient not finite at "%s" (kinds=%s; program '
          'with the system %s): dq=%s dqd=%s dctrl=%s' % (
              pipe, n, pt[0], [l['kind'] for l in spec['links']],
              'closed over (finite when the system is an argument)' if arg_ok
              else 'as an argument',
              bq[i].tolist(), bd[i].tolist(), bc[i].tolist()),
          case=dict(case0, point=pt[0])))
      return res
  # central differences on the regular set, at three step sizes: a coordinate
  # is compared only where the three differences agree with each other (the
  # function is smooth at that scale; a solver or contact switch within the
  # stencil makes them disagree wildly and says nothing about the gradient)
  hs = (1e-5, 1e-6, 1e-7)
  for i in range(len(sing), len(pts)):
    q0, d0, c0 = pts[i][1], pts[i][2], pts[i][3]
    z = np.concatenate([q0, d0, c0])
    m = len(z)
    fds = []
    for h in hs:
      Z = np.concatenate([z + h * np.eye(m), z - h * np.eye(m)])
      B = 1 << (len(Z) - 1).bit_length()
      Zp = pipes.pad([Z], max(B, 16))[0]
      vals = np.asarray(f(s, Zp[:, :nq], Zp[:, nq:nq + nv], Zp[:, nq + nv:],
                          jp.asarray(w)))[:len(Z)]
      fds.append((vals[:m] - vals[m:]) / (2 * h))
    fds = np.array(fds)
    an = np.concatenate([gq[i], gd[i], gc[i]])
    spread = fds.max(0) - fds.min(0)
    smooth = spread <= 1e-5 * (1 + np.abs(fds[1]))
    res['extra']['fd_coordinates_compared'] = res['extra'].get(
        'fd_coordinates_compared', 0) + int(smooth.sum())
    res['extra']['fd_coordinates_nonsmooth'] = res['extra'].get(
        'fd_coordinates_nonsmooth', 0) + int((~smooth).sum())
    fd = fds[1]
    err = np.where(smooth, np.abs(an - fd) / (1 + np.abs(an)), 0.0)
    res['evaluations'] += 1
    res['nontrivial'] += 1
    if not err.max() <= 1e-4:
      k = int(np.argmax(err))
      res['violations'].append(dict(
          key='C03:gradient-vs-finite-difference:%s' % pipe,
          what='%s, %d step(s): d loss/d input[%d] = %.8g but central '
          'differences (h=1e-5,1e-6,1e-7) %s at "%s" (kinds=%s)' % (
              pipe, n, k, an[k], fds[:, k].tolist(), pts[i][0],
              [l['kind'] for l in spec['links']]),
          case=dict(case0, point=pts[i][0])))
      return res
  res['samples'].append(dict(model=phys.describe(spec), pipe=pipe, steps=n,
                             singular_points=[p[0] for p in sing],
                             regular_points=len(reg)))
  res['outcomes'] = [task['name']]
  return res


def replay(rec):
  c = rec['case']
  res = run_task(dict(model=c['model'], pipe=c['pipe'], steps=c['steps'],
                      seed=c['seed'], tier=c['tier'], name='replay'))
  return (not res['violations']), '\n'.join(v['what'] for v in
                                            res['violations']) or 'holds'
