"""C04 Newton's first and third law in the maximal-coordinate pipelines.

(a) momentum: every node of the action-word tree of free-rooted models and of
    two-body collision scenes; after EVERY step
        sum m v(after) - sum m v(before) - M g dt = 0   (spring, positional)
(b) rest: a system at rest without gravity, control or contact stays at rest
    (all three pipelines).
"""

import itertools

import numpy as np

from mc import phys, pipes, scope

LEVEL = 'model_checking'
X64 = True
TOL = 1e-9
RULE = ('(a) free-rooted models: every shape x link-type string with all '
        'roots free up to 3 links (seeded H/S words, templates, limit letters '
        'none/first/all, actuators none/motor/position) and 4 two-body '
        'collision scenes; histories: the full action-word tree over '
        '{-1,0,+1}^min(nu,2) with each letter held h steps, from 4 initial '
        'states (rest, generic, fast spin, displaced joints); every node of '
        'the tree is a state, every physics step a transition, the momentum '
        'balance is checked after every transition; words whose state becomes '
        'non-finite are counted and cut. (b) rest: C02-scope models with '
        'springs removed, gravity 0, motors only, tensor grid |q|<=1 inside '
        'limits, one step, three pipelines. non-trivial = transition with '
        'non-zero control or non-zero velocity; distinct = tree nodes')
ASSUMPTIONS = [
    'global velocity damping at its default 0',
    'momentum is read as sum_i mass_i * xd_i.vel_i (centre-of-mass velocity)',
    'tolerance 1e-9*(1+|p|+M|v|max): round-off scale of the momentum sum',
]


def _free_models(tier, seed):
  specs = []
  rng = scope.rng_for(seed, 'c04', 'f1')
  specs.append(phys.spec_of([phys.tmpl('F', -1, rng, 1)]))
  shapes = scope.shapes(2) + scope.shapes(3)
  assign = 1 if tier == 'quick' else 3
  for sh in shapes:
    opts = [['f'] if p == -1 else ['1', '2', '3'] for p in sh]
    for ts in itertools.product(*opts):
      for a in range(assign):
        rng = scope.rng_for(seed, 'c04m', sh, ts, a)
        links = []
        lim = int(rng.randint(3))
        for p, t in zip(sh, ts):
          kind = 'F' if t == 'f' else ''.join(rng.choice(['H', 'S'],
                                                         size=int(t)))
          var = int(rng.randint(4))
          if p >= 0 and phys.VARIATIONS[var][1] in (0, 2):
            var = 1
          links.append(phys.tmpl(kind, p, rng, var, passive=int(rng.randint(4)),
                                 limits=lim))
        s = phys.spec_of(links)
        joints = [(i, j) for i, l in enumerate(links) if l['kind'] != 'F'
                  for j in range(len(l['kind']))]
        acts = []
        if joints:
          mode = int(rng.randint(3))
          if mode >= 1:
            acts.append(dict(joint=list(joints[-1]), kind='motor',
                             gear=float(rng.uniform(5, 40))))
          if mode == 2:
            acts.append(dict(joint=list(joints[0]), kind='position',
                             kp=float(rng.uniform(5, 30))))
        s['actuators'] = acts
        s['option'] = dict(timestep=0.002)
        specs.append(s)
  return specs


def _collision_scenes(seed):
  out = []
  for gi, (ga, gb) in enumerate([('sphere', 'sphere'), ('sphere', 'capsule'),
                                 ('capsule', 'capsule'), ('box', 'sphere')]):
    rng = scope.rng_for(seed, 'c04c', gi)
    links = []
    for k, g in enumerate((ga, gb)):
      l = scope.link('F', -1, rng)
      size = {'sphere': [0.15], 'capsule': [0.1, 0.2],
              'box': [0.12, 0.15, 0.1]}[g]
      l['geom'] = dict(type=g, size=size, pos=None, quat=None, collide=True,
                       density=float(rng.choice([300, 1000, 2500])))
      l['pos'] = [0.0, 0.0, 0.0]
      links.append(l)
    s = phys.spec_of(links)
    s['actuators'] = []
    s['option'] = dict(timestep=0.002)
    s['custom'] = dict(elasticity=float(rng.choice([0.0, 0.5])))
    s['collision'] = True
    out.append(s)
    s2 = dict(s)
    s2['custom'] = dict(s['custom'], spring_mass_scale=0.5,
                        spring_inertia_scale=0.5)
    out.append(s2)
    s3 = dict(s)
    s3['custom'] = dict(s['custom'], collide_scale=0.5)
    out.append(s3)
  return out


def tasks(tier, seed):
  ts = []
  groups = phys.group_by_skeleton(_free_models(tier, seed))
  for k, g in groups:
    for pipe in ('spring', 'positional'):
      ts.append(dict(name='momentum %s %s' % (pipe, k[:2]), kind='momentum',
                     specs=g, pipe=pipe, cost=60))
  for i, s in enumerate(_collision_scenes(seed)):
    for pipe in ('spring', 'positional'):
      ts.append(dict(name='collision %s %d' % (pipe, i), kind='momentum',
                     specs=[s], pipe=pipe, cost=80))
  # rest: reuse C02-style scope (all root kinds)
  rest = phys.n1_full(seed, axes_ids=(0, 1, 2))[::4] + phys.n2_reduced(
      seed, nvar=2)[::3 if tier == 'quick' else 1]
  n3 = phys.nk_skeletons(3, seed, assignments=1)
  rest += n3[::29] if tier == 'quick' else n3
  for k, g in phys.group_by_skeleton(rest, per_task=30):
    for pipe in pipes.NAMES:
      ts.append(dict(name='rest %s %s' % (pipe, k[:2]), kind='rest', specs=g,
                     pipe=pipe, cost=40))
  return ts


def _init_states(spec, rng):
  nq, nv = scope.nq_nv(spec)
  out = []

  def qbase(scale):
    q = []
    for l in spec['links']:
      if l['kind'] == 'F':
        q += list(rng.uniform(-0.5, 0.5, 3)) + list(scope.generic_quat(rng))
      else:
        q += list(rng.uniform(-scale, scale, len(l['kind'])))
    return np.array(q)
  out.append((qbase(0.0), np.zeros(nv)))                        # rest
  out.append((qbase(0.6), rng.uniform(-1, 1, nv)))              # generic
  out.append((qbase(0.3), rng.uniform(-8, 8, nv)))              # fast spin
  out.append((qbase(1.5), np.zeros(nv)))                        # displaced
  if spec.get('collision'):
    # two bodies: overlapping / approaching along a generic direction
    r = 0.15
    outc = []
    for sep, speed in ((0.20, 2.0), (0.27, 3.0), (0.35, 1.0), (0.10, 0.0)):
      d = scope.unit(rng.normal(size=3))
      q = np.concatenate([np.zeros(3), scope.generic_quat(rng), d * sep,
                          scope.generic_quat(rng)])
      qd = np.zeros(12)
      qd[0:3] = d * speed * 0.5
      qd[6:9] = -d * speed * 0.5
      qd[3:6] = rng.uniform(-2, 2, 3)
      qd[9:12] = rng.uniform(-2, 2, 3)
      outc.append((q, qd))
    return outc
  return out


def _momentum(mass, xd_i_vel):
  return np.einsum('bl,blk->bk', mass, xd_i_vel)


def run_momentum(spec, pipe, tier, seed, res):
  import jax
  sys, mj = scope.load(spec)
  rng = scope.rng_for(seed, 'c04init', str(scope.skeleton(spec)), pipe)
  nu = len(spec.get('actuators', []))
  ne = min(nu, 2)
  letters = list(itertools.product((-1.0, 0.0, 1.0), repeat=ne)) or [()]
  h, L = (5, 3) if tier == 'quick' else (10, 4)
  if ne == 0:
    L = 1
    h = 15 if tier == 'quick' else 40
  inits = _init_states(spec, rng)
  f_init = pipes.jitted(pipe, 'init')
  f_step = pipes.jitted(pipe, 'step')
  s = phys.strip(sys)
  words = list(itertools.product(range(len(letters)), repeat=L))
  B = len(words) * len(inits)
  Q = np.array([q for q, _ in inits for _ in words])
  D = np.array([d for _, d in inits for _ in words])
  W = np.array([w for _ in inits for w in words])
  BB = 1 << (B - 1).bit_length() if B > 1 else 1
  BB = max(BB, 16)
  Qp, Dp = pipes.pad([Q, D], BB)
  st = f_init(s, Qp, Dp)
  # the masses the pipeline integrates with (= link masses at the default
  # spring_mass_scale 0)
  mass = np.asarray(st.mass)
  Mtot = mass[0].sum()
  g = np.asarray(sys.gravity)
  dt = float(sys.opt.timestep)
  alive = np.ones(B, bool)
  p_prev = _momentum(mass, np.asarray(st.xd_i.vel))[:B]
  res['states'] += len(inits)
  diverged = 0
  for li in range(L):
    ctrl = np.zeros((BB, nu))
    for b in range(B):
      lt = letters[W[b, li]]
      ctrl[b, :ne] = lt
    for k in range(h):
      st = f_step(s, st, ctrl)
      v = np.asarray(st.xd_i.vel)
      p = _momentum(mass, v)[:B]
      fin = np.isfinite(v[:B]).all(axis=(1, 2))
      newly = alive & ~fin
      diverged += int(newly.sum())
      alive &= fin
      # distinct tree nodes at this depth: words sharing the prefix coincide
      nodes = len(inits) * len(letters) ** (li + 1)
      res['transitions'] += nodes
      res['states'] += nodes
      res['evaluations'] += nodes
      if li > 0 or any(ctrl[b].any() for b in range(min(B, 4))) or D.any():
        res['nontrivial'] += nodes
      vmax = np.abs(v[:B]).max(axis=(1, 2))
      err = np.abs(p - p_prev - Mtot * g * dt).max(axis=1)
      tol = TOL * (1 + np.abs(p).max(axis=1) + Mtot * vmax)
      bad = alive & ~(err <= tol)
      if bad.any():
        b = int(np.argmax(bad))
        res['violations'].append(dict(
            key='C04:momentum:%s' % pipe,
            what='%s: total momentum changed by %s beyond M g dt at step %d '
            'of word %s (|p|=%.3g, kinds=%s, contacts=%s)' % (
                pipe, (p[b] - p_prev[b] - Mtot * g * dt).tolist(),
                li * h + k + 1, [letters[w] for w in W[b, :li + 1]],
                float(np.abs(p[b]).max()), [l['kind'] for l in spec['links']],
                bool(spec.get('collision'))),
            case=dict(kind='momentum', spec=spec, pipe=pipe, q=Q[b].tolist(),
                      qd=D[b].tolist(), word=[list(letters[w]) for w in
                                              W[b, :li + 1]], h=h,
                      steps=li * h + k + 1)))
        return
      p_prev = p
  res['paths'] += B
  res['extra']['diverged_words'] = res['extra'].get('diverged_words', 0) + \
      diverged


def run_rest(spec, pipe, tier, seed, res):
  s = dict(spec)
  s['links'] = [dict(l) for l in spec['links']]
  for l in s['links']:
    l['passive'] = [dict(p, stiffness=0.0) for p in l['passive']]
  s['option'] = dict(gravity=[0.0, 0.0, 0.0], timestep=0.002)
  # limit letter per model: none / symmetric / positive range excluding 0
  lim = int(scope.rng_for(seed, 'c04lim', str(phys.describe(spec))).randint(3))
  lo, hi = -1.0, 1.0
  if lim:
    for l in s['links']:
      l['range'] = [([-1.4, 1.3] if lim == 1 else [0.2, 0.9])
                    for _ in l['range']]
    if lim == 2:
      lo, hi = 0.3, 0.8
  joints = [(i, j) for i, l in enumerate(s['links']) if l['kind'] != 'F'
            for j in range(len(l['kind']))]
  s['actuators'] = [dict(joint=list(joints[0]), kind='motor', gear=3.0)] \
      if joints else []
  sys, mj = scope.load(s)
  rng = scope.rng_for(seed, 'c04rest', str(scope.skeleton(s)))
  qs, _ = scope.coord_grid(s, rng, hk=3, sk=2, cap=243, lo=lo, hi=hi)
  if lim == 2:
    # coord_grid always contains 0: move those coordinates inside the range
    off = 0
    for l in s['links']:
      w = 7 if l['kind'] == 'F' else len(l['kind'])
      if l['kind'] != 'F':
        blk = qs[:, off:off + w]
        blk[blk == 0.0] = 0.55
      off += w
  nq, nv = scope.nq_nv(s)
  nu = len(s['actuators'])
  f = pipes.jitted(pipe, 'init_step')
  CH = 256
  for c0 in range(0, len(qs), CH):
    q = qs[c0:c0 + CH]
    m = len(q)
    qp, dp, cp = pipes.pad([q, np.zeros((m, nv)), np.zeros((m, nu))], CH)
    st = f(phys.strip(sys), qp, dp, cp)
    q1 = np.asarray(st.q)[:m]
    d1 = np.asarray(st.qd)[:m]
    xv = np.maximum(np.abs(np.asarray(st.xd.vel)[:m]).max(axis=(1, 2)),
                    np.abs(np.asarray(st.xd.ang)[:m]).max(axis=(1, 2)))
    # free-joint quaternions may differ by sign/normalisation only
    dq = np.abs(q1 - q)
    # reported joint angles go through arccos/arcsin (conditioning sqrt(eps)
    # = 1.5e-8 near 0): positions are compared at 1e-7, velocities at 1e-9
    err = np.maximum(dq.max(axis=1) * 1e-2,
                     np.maximum(np.abs(d1).max(axis=1), xv))
    res['evaluations'] += m
    res['transitions'] += m
    res['states'] += m
    res['nontrivial'] += int((np.abs(q).sum(axis=1) > 0).sum())
    bad = ~(err <= TOL)
    if bad.any():
      b = int(np.argmax(bad))
      res['violations'].append(dict(
          key='C04:rest:%s%s' % (pipe, _rest_class(s, pipe)),
          what='%s: system at rest moved: |dq|=%.3g |qd|=%.3g |xd|=%.3g '
          'kinds=%s q=%s' % (pipe, dq[b].max(), np.abs(d1[b]).max(), xv[b],
                             [l['kind'] for l in s['links']],
                             np.round(q[b], 3).tolist()),
          case=dict(kind='rest', spec=spec, pipe=pipe, q=q[b].tolist())))
      return
  res['paths'] += len(qs)


def _rest_class(s, pipe):
  """Structural signature of the listed rest-case findings ('' = none)."""
  if pipe == 'generalized':
    return ''
  if not phys.all_supported(s):
    return ':stack-mixing-hinge-and-slide-not-S*H'
  if not phys.orthogonal_stacks(s):
    return ':non-orthogonal-stack-axes'
  if pipe == 'positional':
    for l in s['links']:
      if l['kind'] == 'HHH' and any(r is not None for r in l['range']) and \
          np.linalg.det(np.array(l['axes'])) < 0:
        return ':limited-left-handed-three-hinge-stack'
  return ''


def run_task(task):
  res = dict(evaluations=0, nontrivial=0, states=0, transitions=0, paths=0,
             violations=[], samples=[], outcomes=[], extra={}, caps=[])
  for spec in task['specs']:
    if task['kind'] == 'momentum':
      run_momentum(spec, task['pipe'], task['tier'], task['seed'], res)
    else:
      run_rest(spec, task['pipe'], task['tier'], task['seed'], res)
    if len(res['violations']) > 4:
      break
  res['samples'].append(dict(kind=task['kind'], pipe=task['pipe'],
                             model=phys.describe(task['specs'][0])))
  res['outcomes'] = [task['name']]
  return res


def replay(rec):
  import jax.numpy as jp
  c = rec['case']
  res = dict(evaluations=0, nontrivial=0, states=0, transitions=0, paths=0,
             violations=[], extra={})
  if c['kind'] == 'rest':
    run_rest(c['spec'], c['pipe'], 'quick', 0, res)
    return (not res['violations']), '\n'.join(v['what'] for v in
                                              res['violations'])
  # plain loop, no tree: one initial state, one word
  spec = c['spec']
  sys, mj = scope.load(spec)
  p = pipes.module(c['pipe'])
  st = p.init(sys, jp.asarray(c['q']), jp.asarray(c['qd']))
  nu = len(spec.get('actuators', []))
  mass = np.asarray(st.mass)
  g, dt = np.asarray(sys.gravity), float(sys.opt.timestep)
  lines = []
  ok = True
  import jax
  step = jax.jit(p.step)
  for lt in c['word']:
    ctrl = np.zeros(nu)
    ctrl[:len(lt)] = lt
    for k in range(c['h']):
      p0 = mass @ np.asarray(st.xd_i.vel)
      st = step(sys, st, jp.asarray(ctrl))
      p1 = mass @ np.asarray(st.xd_i.vel)
      err = np.abs(p1 - p0 - mass.sum() * g * dt).max()
      tol = TOL * (1 + np.abs(p1).max() + mass.sum() * np.abs(
          np.asarray(st.xd_i.vel)).max())
      if not err <= tol:
        ok = False
        lines.append('ctrl %s step %d: momentum imbalance %.3g (tol %.3g)' %
                     (ctrl.tolist(), k, err, tol))
  return ok, scope.to_xml(spec) + '\n' + '\n'.join(lines[:10])
