"""C02 generalized-pipeline dynamics terms and contact-free step vs MuJoCo."""

import itertools

import numpy as np

from mc import mjref, phys, scope

LEVEL = 'exploration'
X64 = True
RTOL = 1e-8
RULE = ('C01 model scope (one link full product, 2-link reduced alphabet, all '
        'shapes x type strings for 3 links, larger in thorough) with passive '
        'letters {none, damping+armature, stiffness, all} and 2 actuators '
        '(motor/position/velocity pairs) dealt over the models, exact matrix '
        'inverse, generic gravity on a third of the models. inputs: mass '
        'matrix on hinge(5)xslide(3) (k<=4 coordinates, else 3x2); bias on '
        'hinge(3)xslide(2) x the quadratic determining set of qd; passive and '
        'actuator forces on the same grid x ctrl grid incl. range bounds; 1 and '
        '5 steps at 12 states per model (no limits, contacts disabled). '
        'oracle: mj_fullM, qfrc_bias, qfrc_passive, qfrc_actuator, qfrc_smooth, '
        'mj_step. non-trivial = slide on rotated body or stack or >= 2 links; '
        'distinct = distinct (model, q, qd, ctrl)')
ASSUMPTIONS = [
    'MuJoCo 3.13 is the reference (Euler integrator with implicit damping)',
    'M(q): trigonometric degree <= 2 per hinge, polynomial degree <= 2 per '
    'slide; bias: total degree <= 2 in qd -> the grids are determining sets '
    'for the terms; the step is rational (grid claim only)',
]
CH = 256


def _decorate(specs, seed):
  """Deal passive letters, actuators and gravity over the models."""
  out = []
  for mi, s in enumerate(specs):
    rng = scope.rng_for(seed, 'c02deco', mi)
    pas = mi % 4
    for l in s['links']:
      if l['kind'] == 'F' and pas in (1, 3):
        l['free_damping'] = float(rng.uniform(0.1, 0.8))
      for j in range(len(l['passive'])):
        d = dict(damping=0.0, armature=0.0, stiffness=0.0)
        if pas in (1, 3):
          d['damping'] = float(rng.uniform(0.2, 1.5))
          d['armature'] = float(rng.uniform(0.05, 0.3))
        if pas in (2, 3):
          d['stiffness'] = float(rng.uniform(1.0, 8.0))
        l['passive'][j] = d
    joints = [(i, j) for i, l in enumerate(s['links']) if l['kind'] != 'F'
              for j in range(len(l['kind']))]
    acts = []
    if joints:
      kinds = [('motor', 'position'), ('position', 'velocity'),
               ('velocity', 'motor')][mi % 3]
      tj = [joints[-1], joints[0]]
      for k, (kind, jt) in enumerate(zip(kinds, tj)):
        a = dict(joint=list(jt), kind=kind, gear=float(rng.uniform(0.5, 3)))
        if kind == 'position':
          a['kp'] = float(rng.uniform(2, 8))
        if kind == 'velocity':
          a['kv'] = float(rng.uniform(0.5, 3))
        if (mi + k) % 2:
          a['ctrlrange'] = [-1.0, 0.7]
        if (mi + k) % 3 == 0:
          a['forcerange'] = [-1.5, 1.0]
        acts.append(a)
    s['actuators'] = acts
    if mi % 3 == 1:
      s['option'] = dict(gravity=[float(x) for x in rng.uniform(-6, 6, 3)])
    s['flags'] = ''
    out.append(s)
  return out


def _models(tier, seed):
  specs = phys.n1_full(seed)
  specs += phys.n2_reduced(seed, nvar=3 if tier == 'quick' else 4)
  specs += phys.nk_skeletons(3, seed, assignments=2 if tier == 'quick' else 6)
  if tier != 'quick':
    specs += phys.nk_skeletons(4, seed, assignments=1)
    for n in (5, 6):
      for sh in (tuple(range(-1, n - 1)), (-1,) + (0,) * (n - 1)):
        for a in range(4):
          rng = scope.rng_for(seed, 'c02big', sh, a)
          links = []
          for i, p in enumerate(sh):
            kind = 'F' if (p == -1 and rng.rand() < 0.4) else ''.join(
                rng.choice(['H', 'S'], size=int(rng.randint(1, 3))))
            links.append(phys.tmpl(kind, p, rng, int(rng.randint(4))))
          specs.append(phys.spec_of(links))
  return _decorate(specs, seed)


def tasks(tier, seed):
  ts = []
  for k, group in phys.group_by_skeleton(_models(tier, seed), per_task=24):
    ts.append(dict(name='skel %s n=%d' % (k[:3], len(group)), specs=group,
                   cost=60 + 3 * len(group)))
  return ts


_F = {}


def _fn():
  import jax
  import jax.numpy as jp
  from brax import actuator
  from brax.generalized import dynamics, pipeline
  if 'f' not in _F:
    def f(sys, q, qd, ctrl):
      st = pipeline.init(sys, q, qd)
      bias = dynamics.inverse(sys, st)
      tau = actuator.to_tau(sys, ctrl, q, qd)
      smooth0 = dynamics.forward(sys, st, jp.zeros_like(qd))
      smooth = dynamics.forward(sys, st, tau)
      s1 = pipeline.step(sys, st, ctrl)

      def body(s, _):
        return pipeline.step(sys, s, ctrl), None
      s5 = jax.lax.scan(body, s1, (), length=4)[0]
      return (st.mass_mx, bias, smooth0 + bias, tau, smooth, s1.q, s1.qd,
              s5.q, s5.qd)
    _F['f'] = jax.jit(jax.vmap(f, in_axes=(None, 0, 0, 0)))
  return _F['f']


def _eval(sys, Q, D, C):
  f = _fn()
  outs = []
  n = len(Q)
  for s in range(0, n, CH):
    a = [np.asarray(x[s:s + CH]) for x in (Q, D, C)]
    m = len(a[0])
    if m < CH:
      a = [np.concatenate([x, np.repeat(x[-1:], CH - m, 0)]) for x in a]
    o = f(phys.strip(sys), *a)
    outs.append([np.asarray(x)[:m] for x in o])
  return [np.concatenate([o[i] for o in outs]) for i in range(9)]


def _close(a, b, scale=None):
  a, b = np.asarray(a), np.asarray(b)
  sc = (np.abs(b).max() if scale is None else scale) + 1.0
  return float(np.abs(a - b).max() / sc)


def _nontrivial(spec):
  if len(spec['links']) >= 2:
    return True
  l = spec['links'][0]
  return len(l['kind']) > 1 or ('S' in l['kind'] and l.get('quat') is not None)


def check_model(spec, seed, res, tier):
  sys, mj = scope.load(spec)
  ref = mjref.Ref(mj)
  nq, nv = scope.nq_nv(spec)
  nu = len(spec['actuators'])
  rng = scope.rng_for(seed, 'c02grid', str(scope.skeleton(spec)))
  k = sum(len(l['kind']) for l in spec['links'] if l['kind'] != 'F')
  big = k <= 4
  qM, _ = scope.coord_grid(spec, rng, hk=5 if big else 3, sk=3 if big else 2,
                           cap=625)
  qB, _ = scope.coord_grid(spec, rng, hk=3, sk=2, cap=81 if tier == 'quick'
                           else 243)
  qdq = scope.qd_quadratic(nv)
  cgrid = np.array(list(itertools.product([-2.0, -1.0, 0.3, 0.7, 2.0],
                                          repeat=nu))) if nu else np.zeros(
                                              (1, 0))
  # (1) mass matrix on the large q grid
  rows = [(q, np.zeros(nv), np.zeros(nu), 'M') for q in qM]
  # (2) bias on q grid x quadratic qd set (capped per model)
  qsel = qB if len(qB) * len(qdq) <= 2500 else qB[:max(1, 2500 // len(qdq))]
  for q in qsel:
    for d in qdq:
      rows.append((q, d, np.zeros(nu), 'B'))
  # (3) actuator / passive / smooth: ctrl grid at 3 states
  st3 = [(qB[len(qB) // 2], rng.uniform(-1, 1, nv)),
         (qB[-1], rng.uniform(-1, 1, nv)), (qB[0], np.zeros(nv))]
  for q, d in st3:
    for c in cgrid:
      rows.append((q, d, c, 'A'))
  # (4) steps
  nstep = 12
  for i in range(nstep):
    q = qB[(i * 7919) % len(qB)]
    rows.append((q, rng.uniform(-1, 1, nv) if i else np.zeros(nv),
                 cgrid[(i * 31) % len(cgrid)], 'S'))
  Q = np.array([r[0] for r in rows])
  D = np.array([r[1] for r in rows])
  C = np.array([r[2] for r in rows]).reshape(len(rows), nu)
  M, bias, passive, tau, smooth, q1, d1, q5, d5 = _eval(sys, Q, D, C)
  nt = _nontrivial(spec)
  for i, (q, d, c, kind) in enumerate(rows):
    res['evaluations'] += 1
    res['nontrivial'] += int(nt)
    case = dict(spec=spec, q=q.tolist(), qd=d.tolist(), ctrl=c.tolist(),
                kind=kind)
    r = ref.dynamics(q, d, c if nu else None)
    errs = {}
    if kind == 'M':
      errs['mass-matrix'] = _close(M[i], r['M'])
      if not np.allclose(M[i], M[i].T, rtol=0, atol=1e-10 * (1 + np.abs(
          M[i]).max())):
        errs['mass-matrix-symmetry'] = 1.0
      try:
        np.linalg.cholesky(M[i])
      except np.linalg.LinAlgError:
        errs['mass-matrix-positive-definite'] = 1.0
    elif kind == 'B':
      errs['bias'] = _close(bias[i], r['bias'])
    elif kind == 'A':
      errs['passive'] = _close(passive[i], r['passive'])
      errs['actuator'] = _close(tau[i], r['actuator'])
      errs['smooth'] = _close(smooth[i], r['smooth'])
      errs['bias'] = _close(bias[i], r['bias'])
    else:
      rq1, rd1 = ref.step(q, d, c if nu else None, 1)
      w1 = ref.last_warnings
      rq5, rd5 = ref.step(q, d, c if nu else None, 5)
      if w1 or ref.last_warnings or not np.abs(rd5).max() < 1e3:
        # the reference itself reports an unstable simulation (and resets):
        # counted, not compared
        res['extra']['unstable_reference_steps'] = res['extra'].get(
            'unstable_reference_steps', 0) + 1
      else:
        errs['step1'] = max(_close(q1[i], rq1), _close(d1[i], rd1))
        errs['step5'] = max(_close(q5[i], rq5), _close(d5[i], rd5)) / 10
    for kname, e in errs.items():
      if not e <= RTOL:
        res['violations'].append(dict(
            key='C02:' + kname, what='%s differs from MuJoCo by %.3g '
            '(relative) kinds=%s q=%s qd=%s ctrl=%s' % (
                kname, e, [l['kind'] for l in spec['links']],
                np.round(q, 3).tolist(), np.round(d, 3).tolist(), c.tolist()),
            case=case))
        return


def run_task(task):
  res = dict(evaluations=0, nontrivial=0, violations=[], samples=[],
             outcomes=[], extra={})
  for spec in task['specs']:
    check_model(spec, task['seed'], res, task['tier'])
    res['extra']['models'] = res['extra'].get('models', 0) + 1
    if len(res['violations']) > 8:
      break
  res['samples'].append(phys.describe(task['specs'][len(task['specs']) // 2]))
  res['outcomes'] = [str(scope.skeleton(task['specs'][0])[:3])]
  return res


def replay(rec):
  import jax.numpy as jp
  from brax import actuator
  from brax.generalized import dynamics, pipeline
  c = rec['case']
  spec = c['spec']
  sys, mj = scope.load(spec)
  ref = mjref.Ref(mj)
  q, qd, ctrl = (np.array(c[k], float) for k in ('q', 'qd', 'ctrl'))
  st = pipeline.init(sys, jp.asarray(q), jp.asarray(qd))
  bias = np.asarray(dynamics.inverse(sys, st))
  tau = np.asarray(actuator.to_tau(sys, jp.asarray(ctrl), jp.asarray(q),
                                   jp.asarray(qd)))
  smooth = np.asarray(dynamics.forward(sys, st, jp.asarray(tau)))
  r = ref.dynamics(q, qd, ctrl if len(ctrl) else None)
  s1 = pipeline.step(sys, st, jp.asarray(ctrl))
  rq1, rd1 = ref.step(q, qd, ctrl if len(ctrl) else None, 1)
  errs = {'mass-matrix': _close(st.mass_mx, r['M']),
          'bias': _close(bias, r['bias']),
          'actuator': _close(tau, r['actuator']),
          'smooth': _close(smooth, r['smooth']),
          'step1': max(_close(s1.q, rq1), _close(s1.qd, rd1))}
  text = ('%s\nq=%s qd=%s ctrl=%s\nrelative errors: %s\nbrax M=\n%s\nmujoco '
          'M=\n%s\nbrax bias=%s\nmujoco bias=%s' % (
              scope.to_xml(spec), q.tolist(), qd.tolist(), ctrl.tolist(), errs,
              np.asarray(st.mass_mx), r['M'], bias.tolist(),
              r['bias'].tolist()))
  return all(e <= RTOL for e in errs.values()), text
