"""C07 batching and compilation transparency; independence of batch members."""

import itertools

import numpy as np

from mc import phys, pipes, scope

LEVEL = 'exploration'
X64 = True
RULE = ('physics: 8 models (4 contact-free articulated, 4 with ground '
        'contact incl. penetrating states) x 3 pipelines x batch sizes '
        '{2,3,8}: ALL ordered pairs of an 8-state alphabet for B=2 (each '
        'member\'s result must be bitwise independent of the other member and '
        'equal to the solo run to 1e-7), cyclic fills for B=3,8; jit vs eager '
        'on 2 states per pipeline. wrappers: scripted env of C15 under '
        'training.wrap with all 64 termination schedules of length 6 as '
        'members in two different member orders vs each member run alone; '
        'DomainRandomizationVmapWrapper over a 2^(4-1) fractional factorial '
        '(thorough: the full 3x3x3x2 product) of mass/friction/gear/timestep '
        'scalings on 4 bundled envs vs a solo env built from that member\'s '
        'system by re-running the PipelineEnv constructor with it; the reset '
        'state and 5 steps are compared on observation, reward, done and '
        'every pipeline-state leaf. non-trivial = batch whose members differ; distinct = '
        '(model, pipeline, batch) tuples')
ASSUMPTIONS = [
    'batched vs solo executables may re-associate sums: 1e-7*(1+|v|); '
    'independence inside one executable is required bitwise',
    'jit vs eager compared at continuity points (contact-free states)',
]


def _models(seed):
  ms = []
  for i, (sh, ks) in enumerate([((-1,), ('HH',)), ((-1, 0), ('F', 'H')),
                                ((-1, 0, 1), ('S', 'H', 'SH')),
                                ((-1, -1), ('H', 'F'))]):
    rng = scope.rng_for(seed, 'c07', i)
    links = [phys.tmpl(k, p, rng, 1 + (j % 3), passive=3, limits=1)
             for j, (k, p) in enumerate(zip(ks, sh))]
    s = phys.spec_of(links)
    joints = [(a, b) for a, l in enumerate(links) if l['kind'] != 'F'
              for b in range(len(l['kind']))]
    s['actuators'] = [dict(joint=list(joints[-1]), kind='motor', gear=3.0)]
    s['option'] = dict(timestep=0.002)
    ms.append(s)
  for i, shapes in enumerate([('sphere',), ('capsule',), ('box', 'sphere'),
                              ('sphere', 'capsule')]):
    rng = scope.rng_for(seed, 'c07c', i)
    links = []
    for j, g in enumerate(shapes):
      l = scope.link('F', -1, rng)
      size = {'sphere': [0.15], 'capsule': [0.1, 0.2],
              'box': [0.12, 0.15, 0.1]}[g]
      l['geom'] = dict(type=g, size=size, pos=None, quat=None, collide=True)
      l['pos'] = [0.5 * j, 0, 0.5]
      links.append(l)
    s = phys.spec_of(links)
    s['actuators'] = []
    s['option'] = dict(timestep=0.002)
    s['world_geoms'] = [dict(type='plane', size=[5, 5, 0.1], collide=True,
                             pos=[0, 0, 0])]
    s['contact'] = True
    ms.append(s)
  return ms


def _alphabet(spec, seed):
  nq, nv = scope.nq_nv(spec)
  nu = len(spec['actuators'])
  rng = scope.rng_for(seed, 'c07a', str(scope.skeleton(spec)))
  out = []
  for k in range(8):
    q = []
    for li, l in enumerate(spec['links']):
      if l['kind'] == 'F':
        z = [0.6, 0.15, 0.05, 1.5][k % 4] if spec.get('contact') else 0.3
        q += [0.4 * li + rng.uniform(-0.1, 0.1), rng.uniform(-0.1, 0.1), z]
        q += list(scope.generic_quat(rng) if k % 2 else [1.0, 0, 0, 0])
      else:
        q += list(rng.uniform(-1, 1, len(l['kind'])) * (0 if k == 0 else 1))
    out.append((np.array(q), rng.uniform(-1, 1, nv) * (k % 3),
                rng.uniform(-1, 1, nu)))
  return out


_F = {}


def _solo(pipe):
  import jax
  if ('s', pipe) not in _F:
    p = pipes.module(pipe)

    def f(sys, q, qd, c):
      st = p.step(sys, p.init(sys, q, qd), c)
      return st.q, st.qd, st.x.pos, st.x.rot, st.xd.vel, st.xd.ang
    _F[('s', pipe)] = (jax.jit(f), jax.jit(jax.vmap(f, in_axes=(None, 0, 0, 0))
                                           ), f)
  return _F[('s', pipe)]


def check_physics(spec, pipe, tier, seed, res):
  import jax.numpy as jp
  sys, _ = scope.load(spec)
  s = phys.strip(sys)
  al = _alphabet(spec, seed)
  fs, fb, raw = _solo(pipe)
  solo = [[np.asarray(x) for x in fs(s, *map(jp.asarray, a))] for a in al]
  case = dict(kind='physics', spec=spec, pipe=pipe, seed=seed, tier=tier)

  def cmp_solo(out, members, tag):
    for m, ai in enumerate(members):
      for k in range(6):
        a, b = out[k][m], solo[ai][k]
        if not (np.isfinite(b).all()):
          continue
        e = np.abs(a - b).max() / (1 + np.abs(b).max())
        if not e <= 1e-7:
          res['violations'].append(dict(
              key='C07:vmap-vs-solo:%s' % pipe,
              what='%s: member %d of a batch of %d (%s) differs from its solo '
              'run by %.3g in output %d (kinds=%s)' % (
                  pipe, m, len(members), tag, e, k, [l['kind'] for l in
                                                     spec['links']]),
              case=case))
          return False
    return True
  # B = 2: all ordered pairs; independence of member 0 from member 1
  ref0 = {}
  for a, b in itertools.product(range(8), repeat=2):
    Q = np.array([al[a][0], al[b][0]])
    D = np.array([al[a][1], al[b][1]])
    C = np.array([al[a][2], al[b][2]])
    out = [np.asarray(x) for x in fb(s, Q, D, C)]
    res['evaluations'] += 1
    res['nontrivial'] += int(a != b)
    if not cmp_solo(out, [a, b], 'pair %d,%d' % (a, b)):
      return
    key = tuple(x[0].tobytes() for x in out)
    if a in ref0 and ref0[a] != key:
      res['violations'].append(dict(
          key='C07:member-independence:%s' % pipe,
          what='%s: result of member state %d changes when the other batch '
          'member changes (to state %d)' % (pipe, a, b), case=case))
      return
    ref0.setdefault(a, key)
  for B in (3, 8):
    for shift in range(8 if tier != 'quick' else 3):
      members = [(shift + k * (1 if B == 8 else 3)) % 8 for k in range(B)]
      Q = np.array([al[m][0] for m in members])
      D = np.array([al[m][1] for m in members])
      C = np.array([al[m][2] for m in members])
      out = [np.asarray(x) for x in fb(s, Q, D, C)]
      res['evaluations'] += 1
      res['nontrivial'] += 1
      if not cmp_solo(out, members, 'B=%d shift %d' % (B, shift)):
        return


def check_eager(spec, pipe, tier, seed, res):
  import jax
  import jax.numpy as jp
  sys, _ = scope.load(spec)
  al = _alphabet(spec, seed)
  fs, fb, raw = _solo(pipe)
  for ai in (1, 4):
    a = [jp.asarray(x) for x in al[ai]]
    jit_out = [np.asarray(x) for x in fs(phys.strip(sys), *a)]
    with jax.disable_jit():
      eager_out = [np.asarray(x) for x in raw(sys, *a)]
    res['evaluations'] += 1
    res['nontrivial'] += 1
    for k in range(6):
      e = np.abs(jit_out[k] - eager_out[k]).max() / (1 + np.abs(
          eager_out[k]).max())
      if not e <= 1e-7:
        res['violations'].append(dict(
            key='C07:jit-vs-eager:%s' % pipe,
            what='%s: jit and eager evaluation differ by %.3g in output %d' %
            (pipe, e, k), case=dict(kind='eager', spec=spec, pipe=pipe,
                                    seed=seed, tier=tier)))
        return


def check_wrappers(res, tier, seed):
  """Members with all 64 schedules, two member orders, vs solo runs."""
  import jax
  import jax.numpy as jp
  from brax.envs.wrappers import training
  from mc.props import c15
  for L, R in ((3, 1), (4, 2), (2, 3)):
    env = training.EvalWrapper(training.wrap(c15.make_env(R), episode_length=L,
                                             action_repeat=R))
    step = jax.jit(env.step)
    reset = jax.jit(env.reset)
    T = 6
    scheds = list(itertools.product((0, 1), repeat=T))
    n = len(scheds)
    keys = jax.random.split(jax.random.PRNGKey(90 + seed), n)
    rng = np.random.RandomState(seed)
    orders = [np.arange(n), rng.permutation(n), np.arange(n)[::-1]]

    def run(idx):
      ks = keys[jp.asarray(idx)]
      st = reset(ks)
      outs = []
      for t in range(T):
        a = np.zeros((len(idx), R))
        for m, i in enumerate(idx):
          a[m, :] = scheds[i][t]
          if R > 1:
            a[m, 0] = scheds[i][(t + 1) % T]
        st = step(st, jp.asarray(a))
        em = st.info['eval_metrics']
        outs.append(np.stack([np.asarray(x, np.float64) for x in (
            st.done, st.reward, st.obs[:, 0], st.obs[:, 1],
            st.info['steps'], st.info['truncation'],
            em.episode_metrics['reward'], em.active_episodes,
            em.episode_steps)], axis=1))
      return np.stack(outs)     # [T, members, fields]
    base = run(orders[0])
    for o in orders[1:]:
      got = run(o)
      res['evaluations'] += n
      res['nontrivial'] += n
      inv = np.argsort(o)
      if not np.array_equal(got[:, inv], base):
        t, m, f = np.argwhere(got[:, inv] != base)[0]
        res['violations'].append(dict(
            key='C07:wrapper-member-independence',
            what='L=%d R=%d: member with schedule %s gives field %d = %r at '
            'step %d in one member order and %r in another' % (
                L, R, scheds[m], f, float(base[t, m, f]), t,
                float(got[:, inv][t, m, f])),
            case=dict(kind='wrappers', seed=seed, tier=tier)))
        return
    for i in range(0, n, 1 if tier != 'quick' else 3):
      solo = run(np.array([i]))
      res['evaluations'] += 1
      res['nontrivial'] += 1
      if not np.array_equal(solo[:, 0], base[:, i]):
        res['violations'].append(dict(
            key='C07:wrapper-vmap-vs-solo',
            what='L=%d R=%d: member with schedule %s differs from the same '
            'member run alone' % (L, R, scheds[i]),
            case=dict(kind='wrappers', seed=seed, tier=tier)))
        return


def check_wrapper_eager(res, tier, seed):
  """envs.create-style stacking on an un-batched env: eager evaluation must
  agree with jit, also when the same input state is evaluated twice."""
  import jax
  import jax.numpy as jp
  from brax.envs.wrappers import training
  from mc.props import c15
  for L, R in ((4, 1), (3, 2)):
    env = training.AutoResetWrapper(training.EpisodeWrapper(
        c15.make_env(R), L, R))
    key = jax.random.PRNGKey(3 + seed)
    s0 = env.reset(key)
    jstep = jax.jit(env.step)
    for t in range(L + 2):
      a = jp.zeros(R)
      snap = jax.tree.map(lambda x: np.asarray(x).copy(), s0)
      with jax.disable_jit():
        e1 = env.step(s0, a)
        e2 = env.step(s0, a)        # again from the SAME input state
      j1 = jstep(s0, a)
      res['evaluations'] += 1
      res['nontrivial'] += 1
      after = jax.tree.map(lambda x: np.asarray(x), s0)
      same_in = jax.tree_util.tree_all(jax.tree.map(
          lambda x, y: bool(np.array_equal(x, y)), snap, after))
      pick = lambda s: (np.asarray(s.obs), float(s.reward), float(s.done),
                        float(s.info['steps']), float(s.info['truncation']))
      vals = [pick(e1), pick(e2), pick(j1)]
      ok = all(np.array_equal(vals[0][0], v[0]) and vals[0][1:] == v[1:]
               for v in vals[1:])
      # (the wrappers do update the info dict of their input in place when
      # run eagerly; that is only reported, the requirement is that re-evaluation
      # from the same input and jit agree)
      if not ok:
        res['violations'].append(dict(
            key='C07:wrapper-jit-vs-eager',
            what='L=%d R=%d step %d: eager/eager-again/jit give (reward, '
            'done, steps, truncation) %s / %s / %s; input state modified: %s'
            % (L, R, t, vals[0][1:], vals[1][1:], vals[2][1:], not same_in),
            case=dict(kind='wrapper-eager', seed=seed, tier=tier)))
        return
      s0 = j1


def check_domain_randomization(res, tier, seed):
  import jax
  import jax.numpy as jp
  from brax import envs
  from brax.envs.wrappers import training
  vals = (0.5, 2.0) if tier == 'quick' else (0.5, 1.0, 2.0)
  # (mass, friction, gear, timestep) factors. quick: the 2^(4-1) fractional
  # factorial (every triple of factors takes all its combinations);
  # thorough: the full product
  if tier == 'quick':
    combos = [c + ((0.5 if (c.count(2.0) % 2) else 1.0),)
              for c in itertools.product(vals, repeat=3)]
  else:
    combos = list(itertools.product(vals, vals, vals, (0.5, 1.0)))
  n = len(combos)

  def rand_fn(sys):
    m = jp.asarray([c[0] for c in combos])
    fr = jp.asarray([c[1] for c in combos])
    ge = jp.asarray([c[2] for c in combos])
    ts = jp.asarray([c[3] for c in combos])
    in_axes = jax.tree.map(lambda x: None, sys)
    in_axes = in_axes.tree_replace({'link.inertia.mass': 0,
                                    'geom_friction': 0, 'actuator.gear': 0,
                                    'opt.timestep': 0})
    sysv = sys.tree_replace({
        'link.inertia.mass': m[:, None] * sys.link.inertia.mass[None],
        'geom_friction': fr[:, None, None] * sys.geom_friction[None],
        'actuator.gear': ge[:, None] * sys.actuator.gear[None],
        'opt.timestep': ts * sys.opt.timestep})
    return sysv, in_axes

  def leaves(ps):
    return [np.asarray(x) for x in jax.tree_util.tree_leaves(ps)]
  for name, backend, inner in (('inverted_pendulum', 'generalized', False),
                               ('inverted_pendulum', 'positional', True),
                               ('reacher', 'positional', False),
                               ('hopper', 'spring', False)):
    env = envs.get_environment(name, backend=backend)
    base_sys = env.sys
    if inner:
      # an already wrapped env (inner action repeat) under the DR wrapper
      env = training.EpisodeWrapper(env, 1000, action_repeat=2)
    wenv = training.wrap(env, episode_length=1000, randomization_fn=rand_fn)
    keys = jax.random.split(jax.random.PRNGKey(7 + seed), n)
    rng = np.random.RandomState(11 + seed)
    acts = rng.uniform(-1, 1, (5, n, env.action_size)).astype(np.float64)
    st = jax.jit(wenv.reset)(keys)
    step = jax.jit(wenv.step)
    traj = [(np.asarray(st.obs), np.asarray(st.reward), np.asarray(st.done),
             leaves(st.pipeline_state))]
    for t in range(5):
      st = step(st, jp.asarray(acts[t]))
      traj.append((np.asarray(st.obs), np.asarray(st.reward),
                   np.asarray(st.done), leaves(st.pipeline_state)))
    # solo: an env BUILT from the member's system (the real PipelineEnv
    # constructor is re-run with it), one executable with the system as an
    # argument
    env2 = envs.get_environment(name, backend=backend)
    if inner:
      env2 = training.EpisodeWrapper(env2, 1000, action_repeat=2)
    sysv, _ = rand_fn(base_sys)
    u = env2.unwrapped
    nf, dbg = u._n_frames, u._debug

    def build(sys):
      envs.PipelineEnv.__init__(u, sys, backend=backend, n_frames=nf,
                                debug=dbg)

    def solo_reset(sys, key):
      build(sys)
      return env2.reset(key)

    def solo_step(sys, s, a):
      build(sys)
      return env2.step(s, a)
    jr, js = jax.jit(solo_reset), jax.jit(solo_step)
    for m in range(n):
      sys_m = base_sys.tree_replace({
          'link.inertia.mass': sysv.link.inertia.mass[m],
          'geom_friction': sysv.geom_friction[m],
          'actuator.gear': sysv.actuator.gear[m],
          'opt.timestep': sysv.opt.timestep[m]})
      sys_m = phys.strip(sys_m)
      s = jr(sys_m, keys[m])
      if inner:
        s.info.update(steps=jp.zeros(()), truncation=jp.zeros(()))
      res['evaluations'] += 1
      res['nontrivial'] += 1
      for t in range(6):
        if t:
          s = js(sys_m, s, jp.asarray(acts[t - 1, m]))
        want = (np.asarray(s.obs), np.asarray(s.reward), np.asarray(s.done))
        got = tuple(x[m] for x in traj[t][:3])
        # at a terminal step the wrapped env already shows the reset
        # observation and state (auto-reset): compare reward and done only
        pairs = list(zip(got, want))[1 if float(s.done) else 0:]
        if not float(s.done):
          pairs += [(g[m], w) for g, w in
                    zip(traj[t][3], leaves(s.pipeline_state))]
        e = max([np.abs(np.asarray(g, float) - np.asarray(w, float)).max()
                 / (1 + np.abs(w).max()) for g, w in pairs if np.size(w)])
        if not e <= 1e-6:
          res['violations'].append(dict(
              key='C07:domain-randomization',
              what='%s/%s: member %d (mass x%g friction x%g gear x%g timestep '
              'x%g) differs from a solo env built from its system by %.3g '
              'after %d steps (observation, reward, done and every pipeline '
              'state leaf compared)' % ((name, backend, m) + tuple(combos[m])
                                        + (e, t)),
              case=dict(kind='dr', seed=seed, tier=tier)))
          return
        if float(s.done):
          break
    env.unwrapped.sys = base_sys


def tasks(tier, seed):
  ts = []
  for mi in range(8):
    for pipe in pipes.NAMES:
      ts.append(dict(name='physics m%d %s' % (mi, pipe), kind='physics',
                     model=mi, pipe=pipe, cost=80))
  for pipe in pipes.NAMES:
    ts.append(dict(name='eager %s' % pipe, kind='eager', model=1, pipe=pipe,
                   cost=120))
  ts.append(dict(name='wrappers', kind='wrappers', cost=30))
  ts.append(dict(name='domain-randomization', kind='dr', cost=120))
  return ts


def run_task(task):
  res = dict(evaluations=0, nontrivial=0, violations=[], samples=[],
             outcomes=[], extra={})
  tier, seed = task['tier'], task['seed']
  if task['kind'] == 'physics':
    spec = _models(seed)[task['model']]
    check_physics(spec, task['pipe'], tier, seed, res)
    res['samples'].append(dict(kind='physics', pipe=task['pipe'],
                               model=phys.describe(spec)))
  elif task['kind'] == 'eager':
    spec = _models(seed)[task['model']]
    check_eager(spec, task['pipe'], tier, seed, res)
    res['samples'].append(dict(kind='jit-vs-eager', pipe=task['pipe']))
  elif task['kind'] == 'wrappers':
    check_wrappers(res, tier, seed)
    check_wrapper_eager(res, tier, seed)
    res['samples'].append(dict(kind='wrappers', schedules=64))
  else:
    check_domain_randomization(res, tier, seed)
    res['samples'].append(dict(kind='domain randomization'))
  res['outcomes'] = [task['name']]
  return res


def replay(rec):
  c = rec['case']
  res = dict(evaluations=0, nontrivial=0, violations=[], extra={})
  if c['kind'] == 'physics':
    check_physics(c['spec'], c['pipe'], c['tier'], c['seed'], res)
  elif c['kind'] == 'eager':
    check_eager(c['spec'], c['pipe'], c['tier'], c['seed'], res)
  elif c['kind'] in ('wrappers', 'wrapper-eager'):
    check_wrappers(res, c['tier'], c['seed'])
    check_wrapper_eager(res, c['tier'], c['seed'])
  else:
    check_domain_randomization(res, c['tier'], c['seed'])
  return (not res['violations']), '\n'.join(v['what'] for v in
                                            res['violations']) or 'holds'
