"""C14 rejection of unsupported models / consistency of accepted ones."""

import copy
import itertools
from xml.etree import ElementTree as ET

import mujoco
import numpy as np

from mc import mjref, phys, scope

LEVEL = 'exploration'
X64 = True
RULE = ('a sub-scope of generator models (1-3 links, every root kind order, '
        'with a ground plane and motor/position/velocity actuators) x {clean} '
        'u {each unsupported feature injected at EVERY eligible element}; a '
        'document MuJoCo itself refuses is discarded and counted; every '
        'injected document must raise on load or in each of the three native '
        'pipeline inits (traced with jax.eval_shape); every clean document '
        'must load and agree with the source on coordinate counts, link types, '
        'parent order, actuator indices, init_q and the pose at init_q. '
        'non-trivial = injected document, or clean document with >= 2 links; '
        'distinct = distinct (model, feature, element)')
ASSUMPTIONS = [
    'the list of unsupported features is the one in the property statement',
    'MuJoCo compile is the filter for "legal document"',
]
PIPES = ('generalized', 'spring', 'positional')


def _pipelines():
  from brax.generalized import pipeline as g
  from brax.positional import pipeline as p
  from brax.spring import pipeline as s
  return dict(generalized=g, spring=s, positional=p)


def models(seed, tier):
  out = []
  kinds1 = ['H', 'S', 'HS', 'SHH', 'F']
  for k in kinds1:
    rng = scope.rng_for(seed, 'c14-1', k)
    out.append(phys.spec_of([phys.tmpl(k, -1, rng, 1)]))
  combos = [((-1, 0), ('F', 'H')), ((-1, 0), ('H', 'SH')),
            ((-1, -1), ('HS', 'F')), ((-1, -1), ('F', 'F')),
            ((-1, 0), ('S', 'HSH')), ((-1, -1), ('SS', 'H'))]
  for sh, ks in combos:
    rng = scope.rng_for(seed, 'c14-2', sh, ks)
    out.append(phys.spec_of([phys.tmpl(k, p, rng, int(rng.randint(4)))
                             for k, p in zip(ks, sh)]))
  combos3 = [((-1, 0, 0), ('F', 'H', 'S')), ((-1, 0, 1), ('H', 'HS', 'S')),
             ((-1, 0, -1), ('HH', 'S', 'F')), ((-1, -1, 1), ('SH', 'F', 'H')),
             ((-1, -1, -1), ('H', 'HSS', 'F')), ((-1, 0, 1), ('F', 'SS', 'HH'))]
  if tier != 'quick':
    for sh in scope.shapes(3):
      for a in range(3):
        rng = scope.rng_for(seed, 'c14-3x', sh, a)
        ks = tuple('F' if (p == -1 and rng.rand() < 0.4) else ''.join(
            rng.choice(['H', 'S'], size=int(rng.randint(1, 4)))) for p in sh)
        combos3.append((sh, ks))
  for sh, ks in combos3:
    rng = scope.rng_for(seed, 'c14-3', sh, ks)
    out.append(phys.spec_of([phys.tmpl(k, p, rng, int(rng.randint(4)))
                             for k, p in zip(ks, sh)]))
  # plane + actuators on every model
  for mi, s in enumerate(out):
    rng = scope.rng_for(seed, 'c14-act', mi)
    s['world_geoms'] = [dict(type='plane', size=[5, 5, 0.1], collide=True,
                             pos=[0, 0, -3.0])]
    joints = [(i, j) for i, l in enumerate(s['links']) if l['kind'] != 'F'
              for j in range(len(l['kind']))]
    acts = []
    for k, jt in enumerate(joints[::-1][:3]):
      kind = ['motor', 'position', 'velocity'][(k + mi) % 3]
      a = dict(joint=list(jt), kind=kind, gear=float(rng.uniform(0.5, 3)))
      if kind == 'position':
        a['kp'] = 5.0
      if kind == 'velocity':
        a['kv'] = 2.0
      acts.append(a)
    s['actuators'] = acts
    s['custom'] = {}
  return out


def injections(xml):
  """Yields (feature, element description, injected xml)."""
  root = ET.fromstring(xml)

  def fresh():
    return copy.deepcopy(root)

  def opt(r):
    o = r.find('option')
    return o
  for val in ('RK4', 'implicit', 'implicitfast'):
    r = fresh(); opt(r).set('integrator', val)
    yield 'integrator', val, r
  r = fresh(); opt(r).set('cone', 'elliptic'); yield 'cone', 'elliptic', r
  r = fresh(); opt(r).set('wind', '1 0 0.5'); yield 'wind', 'option', r
  r = fresh(); opt(r).set('impratio', '2'); yield 'impratio', 'option', r
  geoms = [g.get('name') for g in root.iter('geom')]
  bodies = [b.get('name') for b in root.iter('body')]
  joints = [(j.get('name'), j.tag, j.get('type')) for j in root.iter()
            if j.tag in ('joint', 'freejoint')]

  def find(r, tag, name):
    for e in r.iter(tag):
      if e.get('name') == name:
        return e
  for g in geoms:
    r = fresh(); find(r, 'geom', g).set('fluidshape', 'ellipsoid')
    opt(r).set('density', '1.2')
    yield 'ellipsoid-fluid', g, r
    if len(geoms) > 1:
      r = fresh(); find(r, 'geom', g).set('solmix', '2')
      yield 'solmix', g, r
      r = fresh(); find(r, 'geom', g).set('priority', '1')
      yield 'priority', g, r
  for (jn, tag, typ) in joints:
    if tag == 'freejoint':
      r = fresh()
      e = find(r, 'freejoint', jn)
      e.tag = 'joint'; e.set('type', 'free'); e.set('stiffness', '2')
      yield 'free-joint-stiffness', jn, r
      continue
    r = fresh(); find(r, 'joint', jn).set('ref', '0.3')
    yield 'joint-ref', jn, r
  # stacked joints with different anchors: bodies with >= 2 joints
  for b in root.iter('body'):
    js = b.findall('joint')
    if len(js) >= 2:
      for k in range(1, len(js)):
        r = fresh()
        e = find(r, 'joint', js[k].get('name'))
        base = [float(x) for x in (e.get('pos') or '0 0 0').split()]
        e.set('pos', '%r %r %r' % (base[0] + 0.1, base[1], base[2] - 0.05))
        yield 'stack-different-anchors', js[k].get('name'), r
  for bn in bodies:
    # ball joint in a new child body
    r = fresh()
    nb = ET.SubElement(find(r, 'body', bn), 'body', name='ballbody',
                       pos='0.1 0 0')
    ET.SubElement(nb, 'joint', name='ballj', type='ball')
    ET.SubElement(nb, 'geom', name='ballg', type='sphere', size='0.05',
                  contype='0', conaffinity='0')
    yield 'ball-joint', bn + '/child', r
    # ball + slide stack in a new child body
    r = fresh()
    nb = ET.SubElement(find(r, 'body', bn), 'body', name='ballbody',
                       pos='0.1 0 0')
    ET.SubElement(nb, 'joint', name='slidej', type='slide', axis='1 0 0')
    ET.SubElement(nb, 'joint', name='ballj', type='ball')
    ET.SubElement(nb, 'geom', name='ballg', type='sphere', size='0.05',
                  contype='0', conaffinity='0')
    yield 'ball-joint-in-stack', bn + '/child', r
    # free joint stacked with another joint
    r = fresh()
    nb = ET.SubElement(r.find('worldbody'), 'body', name='fs', pos='0 0 2')
    ET.SubElement(nb, 'joint', name='fsf', type='free')
    ET.SubElement(nb, 'joint', name='fsh', type='hinge', axis='0 0 1')
    ET.SubElement(nb, 'geom', name='fsg', type='sphere', size='0.05')
    yield 'free-joint-in-stack', 'world', r
    for ct, ca in (('1', '1'), ('1', '0'), ('0', '1')):
      r = fresh()
      ET.SubElement(find(r, 'body', bn), 'geom', name='cyl', type='cylinder',
                    size='0.05 0.3', contype=ct, conaffinity=ca)
      yield 'colliding-long-cylinder', '%s contype=%s conaffinity=%s' % (
          bn, ct, ca), r
  # actuators
  acts = [a for a in (root.find('actuator') or [])]
  hinge_like = [jn for (jn, tag, typ) in joints if tag == 'joint']
  for a in acts:
    an = a.get('name')
    jn = a.get('joint')

    def act(r):
      for e in r.find('actuator'):
        if e.get('name') == an:
          return e
    # tendon transmission
    r = fresh()
    t = ET.SubElement(r, 'tendon')
    f = ET.SubElement(t, 'fixed', name='tend')
    ET.SubElement(f, 'joint', joint=jn, coef='1')
    e = act(r); del e.attrib['joint']; e.set('tendon', 'tend')
    yield 'tendon-transmission', an, r
    # site transmission
    r = fresh()
    ET.SubElement(next(r.iter('body')), 'site', name='actsite',
                  pos='0.05 0 0')
    e = act(r); del e.attrib['joint']; e.set('site', 'actsite')
    e.set('gear', '1 0 0 0 0 0')
    yield 'site-transmission', an, r
    # slider-crank
    r = fresh()
    b0 = next(r.iter('body'))
    ET.SubElement(b0, 'site', name='crank', pos='0.05 0 0')
    ET.SubElement(b0, 'site', name='slider', pos='0.3 0 0.1')
    e = act(r); del e.attrib['joint']
    e.set('cranksite', 'crank'); e.set('slidersite', 'slider')
    e.set('cranklength', '0.3')
    yield 'slidercrank-transmission', an, r
    for feat, attrs in (('gaintype-affine', dict(gaintype='affine',
                                                gainprm='1 0.5 0.2')),
                        ('gaintype-user', dict(gaintype='user')),
                        ('biastype-user', dict(biastype='user')),
                        ('gaintype-muscle', dict(gaintype='muscle',
                                                 biastype='muscle'))):
      r = fresh()
      e = act(r)
      gear = e.get('gear')
      e.tag = 'general'
      for k in list(e.attrib):
        if k not in ('name', 'joint', 'gear'):
          del e.attrib[k]
      for k, v in attrs.items():
        e.set(k, v)
      yield feat, an, r


def _tostr(r):
  return ET.tostring(r, encoding='unicode')


def is_rejected(xml, lines=None):
  """True if load or every pipeline init raises; list of accepting stages."""
  import jax
  import jax.numpy as jp
  from brax.io import mjcf
  try:
    sys = mjcf.loads(xml)
  except Exception as e:  # pylint: disable=broad-except
    return True, [], 'load raised %s' % type(e).__name__
  accepted = []
  for name, pipe in _pipelines().items():
    try:
      jax.eval_shape(lambda q, qd: pipe.init(sys, q, qd), sys.init_q,
                     jp.zeros(sys.qd_size()))
      accepted.append(name)
    except Exception as e:  # pylint: disable=broad-except
      pass
  return (not accepted), accepted, ''


def check_clean(spec, xml):
  """Consistency of an accepted model with its source."""
  import jax
  import jax.numpy as jp
  from brax import kinematics
  from brax import math as bmath
  from brax.io import mjcf
  probs = []
  sys = mjcf.loads(xml)
  mj = mujoco.MjModel.from_xml_string(mjcf.fuse_bodies(xml))
  for name, pipe in _pipelines().items():
    try:
      jax.eval_shape(lambda q, qd: pipe.init(sys, q, qd), sys.init_q,
                     jp.zeros(sys.qd_size()))
    except Exception as e:  # pylint: disable=broad-except
      probs.append(('clean-rejected', 'supported model rejected by %s init: '
                    '%s: %s' % (name, type(e).__name__, str(e)[:120])))
  nq, nv = scope.nq_nv(spec)
  if (sys.q_size(), sys.qd_size(), sys.act_size()) != (
      nq, nv, len(spec['actuators'])):
    probs.append(('sizes', 'q/qd/act sizes %s, source %s' % (
        (sys.q_size(), sys.qd_size(), sys.act_size()),
        (nq, nv, len(spec['actuators'])))))
  want_types = ''.join('f' if l['kind'] == 'F' else str(len(l['kind']))
                       for l in spec['links'])
  if sys.link_types != want_types:
    probs.append(('link-types', 'link_types %r, source %r' %
                  (sys.link_types, want_types)))
  want_par = tuple(l['parent'] for l in spec['links'])
  if tuple(int(p) for p in sys.link_parents) != want_par or any(
      p >= i for i, p in enumerate(sys.link_parents)):
    probs.append(('link-parents', 'link_parents %r, source %r' %
                  (sys.link_parents, want_par)))
  # actuator addresses
  qadr, dadr = {}, {}
  q = d = 0
  for i, l in enumerate(spec['links']):
    if l['kind'] == 'F':
      q += 7; d += 6
    else:
      for j in range(len(l['kind'])):
        qadr[(i, j)], dadr[(i, j)] = q, d
        q += 1; d += 1
  wq = [qadr[tuple(a['joint'])] for a in spec['actuators']]
  wd = [dadr[tuple(a['joint'])] for a in spec['actuators']]
  if [int(x) for x in np.asarray(sys.actuator.q_id)] != wq or [
      int(x) for x in np.asarray(sys.actuator.qd_id)] != wd:
    probs.append(('actuator-index', 'actuator q_id/qd_id %s/%s, source %s/%s'
                  % (np.asarray(sys.actuator.q_id).tolist(),
                     np.asarray(sys.actuator.qd_id).tolist(), wq, wd)))
  if not np.allclose(np.asarray(sys.init_q), mj.qpos0, atol=1e-12):
    probs.append(('init-q', 'init_q %s, qpos0 %s' % (
        np.asarray(sys.init_q).tolist(), mj.qpos0.tolist())))
  if not probs:
    x, _ = kinematics.forward(sys, sys.init_q, jp.zeros(sys.qd_size()))
    rp, rm, _, _ = mjref.Ref(mj).kin(mj.qpos0)
    mat = np.asarray(jax.vmap(bmath.quat_to_3x3)(x.rot))
    e = max(np.abs(np.asarray(x.pos) - rp).max(), np.abs(mat - rm).max())
    if not e <= 1e-6:
      probs.append(('init-pose', 'pose at init_q differs from the source '
                    'model by %.3g' % e))
  return probs


def tasks(tier, seed):
  n = len(models(seed, tier))
  return [dict(name='model %d' % i, index=i, cost=10) for i in range(n)]


def run_task(task):
  res = dict(evaluations=0, nontrivial=0, violations=[], samples=[],
             outcomes=set(), extra={})
  spec = models(task['seed'], task['tier'])[task['index']]
  xml = scope.to_xml(spec)
  try:
    probs = check_clean(spec, xml)
  except Exception as e:  # pylint: disable=broad-except
    probs = [('clean-load-raises', 'supported model failed to load: %s: %s' %
              (type(e).__name__, str(e)[:200]))]
  res['evaluations'] += 1
  res['nontrivial'] += int(len(spec['links']) >= 2)
  for k, what in probs:
    res['violations'].append(dict(key='C14:' + k, what=what,
                                  case=dict(kind='clean', xml=xml, spec=spec)))
  discarded = 0
  for feat, where, r in injections(xml):
    ixml = _tostr(r)
    try:
      mujoco.MjModel.from_xml_string(ixml)
    except Exception:  # pylint: disable=broad-except
      discarded += 1
      res['extra']['discarded:' + feat] = res['extra'].get(
          'discarded:' + feat, 0) + 1
      continue
    rej, accepted, _ = is_rejected(ixml)
    res['evaluations'] += 1
    res['nontrivial'] += 1
    res['outcomes'].add(feat)
    if not rej:
      res['violations'].append(dict(
          key='C14:accepted:%s' % feat,
          what='unsupported feature %s at %s accepted by %s' %
          (feat, where, accepted),
          case=dict(kind='injected', feature=feat, where=where, xml=ixml)))
  # sequence: a model that was accepted once, then gets an unsupported
  # feature switched on IN PLACE on its compiled MjModel, must be rejected
  # the next time a pipeline is initialised
  if not probs:
    import jax
    import jax.numpy as jp
    from brax.io import mjcf
    sys = mjcf.loads(xml)
    toggles = [('integrator', lambda m: setattr(m.opt, 'integrator', 1)),
               ('cone', lambda m: setattr(m.opt, 'cone', 1)),
               ('impratio', lambda m: setattr(m.opt, 'impratio', 2.0)),
               ('wind', lambda m: m.opt.wind.__setitem__(0, 1.0))]
    for feat, fn in toggles:
      mj = sys.mj_model
      saved = (mj.opt.integrator, mj.opt.cone, mj.opt.impratio,
               mj.opt.wind.copy())
      for name, pipe in _pipelines().items():   # accepted while clean
        jax.eval_shape(lambda q, qd: pipe.init(sys, q, qd), sys.init_q,
                       jp.zeros(sys.qd_size()))
      fn(mj)
      accepted = []
      for name, pipe in _pipelines().items():
        try:
          jax.eval_shape(lambda q, qd: pipe.init(sys, q, qd), sys.init_q,
                         jp.zeros(sys.qd_size()))
          accepted.append(name)
        except Exception:  # pylint: disable=broad-except
          pass
      mj.opt.integrator, mj.opt.cone, mj.opt.impratio = saved[:3]
      mj.opt.wind[:] = saved[3]
      res['evaluations'] += 1
      res['nontrivial'] += 1
      res['outcomes'].add('in-place:' + feat)
      if accepted:
        res['violations'].append(dict(
            key='C14:accepted-after-in-place-change:%s' % feat,
            what='feature %s switched on in place on an already accepted '
            'model is accepted by %s' % (feat, accepted),
            case=dict(kind='inplace', feature=feat, xml=xml)))
  res['extra']['discarded_by_mujoco'] = discarded
  res['samples'].append(dict(model=phys.describe(spec),
                             features=sorted(res['outcomes'])))
  res['outcomes'] = list(res['outcomes'])
  return res


def vacuous(tot, tier):
  if len(tot['outcomes']) < 15:
    return 'only %d features exercised' % len(tot['outcomes'])
  return None


def replay(rec):
  c = rec['case']
  if c['kind'] == 'clean':
    probs = check_clean(c['spec'], c['xml'])
    return (not probs), c['xml'] + '\n' + '\n'.join(p[1] for p in probs)
  if c['kind'] == 'inplace':
    res = run_task(dict(index=0, seed=0, tier='quick'))
    vs = [v for v in res['violations'] if v['key'] == rec['key']]
    return (not vs), '\n'.join(v['what'] for v in vs) or 'holds'
  rej, accepted, why = is_rejected(c['xml'])
  return rej, '%s\nfeature %s at %s: %s' % (
      c['xml'], c['feature'], c['where'],
      'rejected ' + why if rej else 'ACCEPTED by %s' % accepted)
