"""C12 generalized integrator consistency: conserved quantities drift O(dt)."""

import numpy as np

from mc import phys, scope

LEVEL = 'model_checking'
X64 = True
RULE = ('conservative generator models (no damping, limits or actuators; '
        'joint springs on half and rotor armature on a third of them; exact '
        'matrix inverse; all root kinds; '
        '1-3 links over all shapes x link-type strings) x 8 initial states '
        '(tensor-grid poses, qd in unit vectors and seeded |qd|<=1) x step '
        'sizes dt, dt/2, dt/4 (dt=1e-3) over a fixed horizon: every run is a '
        'history of the real generalized step; the energy (and, for '
        'all-free forests, momentum minus M g t) drift d(h) must shrink '
        '(|d(h/4)| <= 0.9 max(|d(h)|,|d(h/2)|)) and '
        'its quadratic extrapolation to h=0 must vanish (<= 25% of the drift envelope); runs '
        'that meet a near-singular inertia matrix (cond > 1e5) or |qd| > 50 are '
        'counted, not compared. '
        'non-trivial = model with >= 2 dofs and non-zero velocity; distinct = '
        '(model, initial state) pairs, each with three histories')
ASSUMPTIONS = [
    'energy = 1/2 qd^T M qd - sum m g.c + 1/2 k q^2 computed by the harness '
    'from state.mass_mx and link centre-of-mass positions',
    'total momentum is read as (M qd) on the root translation dofs',
    'three step sizes bound the order; the limit h -> 0 itself is not reached',
    'thresholds 0.9 / 0.25 separate O(h) from O(1) drift by an order of '
    'magnitude (calibrated on seeds 0-9)',
]
DT = 1e-3


def _models(tier, seed):
  specs = phys.n1_full(seed, axes_ids=(0, 3))[::3]
  specs += phys.n2_reduced(seed, nvar=2)[::2 if tier == 'quick' else 1]
  n3 = phys.nk_skeletons(3, seed, assignments=1)
  specs += n3[::4] if tier == 'quick' else n3
  out = []
  for mi, s in enumerate(specs):
    rng = scope.rng_for(seed, 'c12', mi)
    for l in s['links']:
      l['passive'] = [dict(damping=0.0,
                           armature=float(rng.uniform(0.05, 0.4)) if mi % 3 == 1
                           else 0.0,
                           stiffness=float(rng.uniform(2, 20)) if mi % 2 else
                           0.0) for _ in l['passive']]
      l['range'] = [None] * len(l['range'])
    s['actuators'] = []
    s['option'] = dict(timestep=DT)
    out.append(s)
  return out


def tasks(tier, seed):
  ts = []
  for k, g in phys.group_by_skeleton(_models(tier, seed), per_task=12):
    ts.append(dict(name='skel %s n=%d' % (k[:2], len(g)), specs=g,
                   cost=40 + 3 * len(g)))
  return ts


_F = {}


def _fn():
  import jax
  import jax.numpy as jp
  from brax.generalized import pipeline
  if 'f' not in _F:
    def f(sys, dt, nsteps, q, qd, stiff):
      sys = sys.tree_replace({'opt.timestep': dt})

      def observe(st):
        ke = 0.5 * st.qd @ st.mass_mx @ st.qd
        x_i = st.x.vmap().do(sys.link.inertia.transform)
        m = sys.link.inertia.mass
        pe = -jp.sum(m * (x_i.pos @ sys.gravity))
        # springs act on non-free coordinates only
        idx = sys.q_idx('123') if any(t in '123' for t in sys.link_types) \
            else jp.zeros(0, int)
        qs = st.q[idx] if idx.shape[0] else jp.zeros(0)
        didx = sys.qd_idx('123') if idx.shape[0] else jp.zeros(0, int)
        se = 0.5 * jp.sum(stiff[didx] * qs * qs) if idx.shape[0] else 0.0
        # total linear momentum = generalized momentum conjugate to the
        # (world-aligned) translations of the free roots; link velocities
        # st.xd are not used (they are unreliable for stacked joints, C01)
        gm = st.mass_mx @ st.qd
        p = jp.zeros(3)
        off = 0
        for t, par in zip(sys.link_types, sys.link_parents):
          if t == 'f' and par == -1:
            p = p + gm[off:off + 3]
          off += 6 if t == 'f' else int(t)
        return ke + pe + se, p, ke

      st = pipeline.init(sys, q, qd)
      e0, p0, ke0 = observe(st)
      c0 = jp.linalg.cond(st.mass_mx)
      st = jax.lax.fori_loop(0, nsteps, lambda i, s: pipeline.step(
          sys, s, jp.zeros(sys.act_size())), st)
      e1, p1, _ = observe(st)
      mtot = jp.sum(sys.link.inertia.mass)
      return (e1 - e0, p1 - p0 - mtot * sys.gravity * dt * nsteps, e0, ke0,
              jp.max(jp.abs(st.qd)),
              jp.maximum(c0, jp.linalg.cond(st.mass_mx)))
    _F['f'] = jax.jit(jax.vmap(f, in_axes=(None, None, None, 0, 0, None)))
  return _F['f']


def check_model(spec, tier, seed, res):
  import jax.numpy as jp
  sys, mj = scope.load(spec)
  nq, nv = scope.nq_nv(spec)
  rng = scope.rng_for(seed, 'c12s', str(scope.skeleton(spec)))
  qs, _ = scope.coord_grid(spec, rng, hk=3, sk=2, cap=64, lo=-1.5, hi=1.5)
  pick = [qs[(i * 7) % len(qs)] for i in range(8)]
  qds = [np.eye(nv)[i % nv] * (1.0 if i % 2 else -0.7) for i in range(4)] + [
      rng.uniform(-1, 1, nv) for _ in range(4)]
  Q, D = pipes_pad(np.array(pick), np.array(qds))
  horizon = 0.05 if tier == 'quick' else 0.1
  stiff = np.asarray(sys.dof.stiffness)
  f = _fn()
  s = phys.strip(sys)
  out = {}
  for k in (1, 2, 4):
    n = int(round(horizon / DT)) * k
    o = f(s, jp.asarray(DT / k), n, jp.asarray(Q), jp.asarray(D),
          jp.asarray(stiff))
    out[k] = [np.asarray(x) for x in o]
  all_free = all(l['kind'] == 'F' for l in spec['links'] if l['parent'] < 0)

  def judge(o, i, ks):
    """None = holds, 'skip' = singular/diverged, else (name, d's, c)."""
    if not all(np.isfinite(o[k][0][i]) and o[k][4][i] < 50 and
               o[k][5][i] < 1e5 for k in ks):
      return 'skip'
    scale = abs(o[ks[0]][2][i]) + o[ks[0]][3][i] + 1.0
    eps = 1e-9 * scale
    quantities = [('energy', [o[k][0][i] for k in ks])]
    if all_free:
      for ax in range(3):
        quantities.append(('momentum', [o[k][1][i][ax] for k in ks]))
    for name, (d1, d2, d4) in quantities:
      c = (8 * d4 - 6 * d2 + d1) / 3.0
      # pre-asymptotically d(h) = a h + b h^2 may change sign between h and
      # h/2, so the halving is required of the envelope, and the deciding
      # quantity is the quadratic (Richardson) extrapolation to h = 0
      dm = max(abs(d1), abs(d2))
      if not (abs(d4) <= 0.9 * dm + eps and
              abs(c) <= 0.25 * max(dm, abs(d4)) + eps):
        return (name, (d1, d2, d4), c)
    return None

  for i in range(8):
    res['evaluations'] += 1
    res['states'] += 3
    res['transitions'] += int(round(horizon / DT)) * 7
    res['paths'] += 3
    if nv >= 2:
      res['nontrivial'] += 1
    v = judge(out, i, (1, 2, 4))
    if v == 'skip':
      # trajectory runs into a (near-)singular inertia matrix (e.g. gimbal
      # lock of stacked hinges through one point) or diverges -- counted
      res['extra']['singular_or_diverged'] = res['extra'].get(
          'singular_or_diverged', 0) + 1
      continue
    if v is not None:
      # "in the limit of small time steps": repeat on the finer triple
      # (dt/4, dt/8, dt/16) before reporting
      fine = {}
      for k in (4, 8, 16):
        n = int(round(horizon / DT)) * k
        o = f(s, jp.asarray(DT / k), n, jp.asarray(Q[i:i + 1]),
              jp.asarray(D[i:i + 1]), jp.asarray(stiff))
        fine[k] = [np.asarray(x) for x in o]
      res['extra']['refined_cases'] = res['extra'].get('refined_cases', 0) + 1
      res['transitions'] += int(round(horizon / DT)) * 28
      v = judge(fine, 0, (4, 8, 16))
      if v == 'skip':
        res['extra']['singular_or_diverged'] = res['extra'].get(
            'singular_or_diverged', 0) + 1
        continue
    if v is not None:
      name, (d1, d2, d4), c = v
      res['violations'].append(dict(
          key='C12:%s-drift' % name,
          what='%s drift over %.2fs does not vanish with the step size: '
          'd(dt/4)=%.6g d(dt/8)=%.6g d(dt/16)=%.6g, extrapolated to h=0: %.3g '
          '(kinds=%s)' % (name, horizon, d1, d2, d4, c,
                          [l['kind'] for l in spec['links']]),
          case=dict(spec=spec, q=Q[i].tolist(), qd=D[i].tolist(),
                    horizon=horizon)))
      return


def pipes_pad(Q, D):
  return Q, D


def run_task(task):
  res = dict(evaluations=0, nontrivial=0, states=0, transitions=0, paths=0,
             violations=[], samples=[], outcomes=[], extra={}, caps=[])
  for spec in task['specs']:
    check_model(spec, task['tier'], task['seed'], res)
    if len(res['violations']) > 4:
      break
  res['samples'].append(phys.describe(task['specs'][0]))
  res['outcomes'] = [task['name']]
  return res


def replay(rec):
  import jax
  import jax.numpy as jp
  from brax.generalized import pipeline
  c = rec['case']
  spec = c['spec']
  sys0, mj = scope.load(spec)
  lines = []
  ds = []
  for k in (4, 8, 16):
    sys = sys0.tree_replace({'opt.timestep': DT / k})
    st = pipeline.init(sys, jp.asarray(c['q']), jp.asarray(c['qd']))

    def energy(st):
      x_i = st.x.vmap().do(sys.link.inertia.transform)
      ke = 0.5 * st.qd @ st.mass_mx @ st.qd
      pe = -jp.sum(sys.link.inertia.mass * (x_i.pos @ sys.gravity))
      se = 0.0
      if any(t in '123' for t in sys.link_types):
        se = 0.5 * jp.sum(sys.dof.stiffness[sys.qd_idx('123')] *
                          st.q[sys.q_idx('123')] ** 2)
      return float(ke + pe + se)
    e0 = energy(st)
    step = jax.jit(lambda s: pipeline.step(sys, s, jp.zeros(0)))
    for _ in range(int(round(c['horizon'] / DT)) * k):
      st = step(st)
    ds.append(energy(st) - e0)
    lines.append('h=%g: energy drift %.6g' % (DT / k, ds[-1]))
  cc = (8 * ds[2] - 6 * ds[1] + ds[0]) / 3
  dm = max(abs(ds[0]), abs(ds[1]))
  ok = (abs(ds[2]) <= 0.9 * dm + 1e-8 and abs(cc) <= 0.25 * max(
      dm, abs(ds[2])) + 1e-8)
  if 'momentum' in rec.get('key', ''):
    ok = False if not ok else ok
  return ok, scope.to_xml(spec) + '\n' + '\n'.join(lines) + (
      '\nextrapolated to h=0: %.3g' % cc)
