"""C06 contacts and limits are inert until reached; contacts only push."""

import itertools

import numpy as np

from mc import phys, pipes, scope
from mc.mjref import quat_to_mat

LEVEL = 'model_checking'
X64 = True
RULE = ('inert: model skeletons with <= 3 links (both root kinds, stacks) in '
        'three variants V0 (no collision, no limits), V1 (collidable geoms + '
        'ground plane 3 cm below the lowest geom point over the grid as measured '
        'by MuJoCo, min contact distance verified > 0), V2 '
        '(symmetric range limits) and V3 (ranges [0.2,0.9] that exclude 0), q '
        'strictly inside before and after the step: one '
        'step from tensor-grid states, V1 = V0 and V2 = V0 on the whole '
        'V3 = V0 on the whole returned state, unit quaternions everywhere, '
        'three pipelines. '
        'push-only: {sphere, box, capsule} x (cube rotations + generic) x '
        'density {200,1000,3000} x depth {2,5,10,20} mm x gravity on/off, one '
        'step. resting: the three shapes x size {0.05,0.15,0.3} x density (3) '
        'x drop height {0,0.1,0.5}: EVERY step of a 3 s history (penetration '
        '<= 5 cm, final height analytic +- 5 mm). rebound: spheres radius (3) '
        'x elasticity {0,0.3,0.6,0.9} x height {0.2,0.5,1.0}, dt = 1 ms, '
        'spring and positional. non-trivial = every case; distinct = '
        'distinct (variant/scene, parameters, state); transitions = physics '
        'steps whose state was checked')
ASSUMPTIONS = [
    '"a few centimetres" = 5 cm; resting height tolerance 5 mm (fixed after '
    'probing the lattice corners on the pinned tree)',
    'rebound margins are the property\'s own numbers',
    'inert comparisons are single steps from grid states (the statement\'s '
    'wording)',
]


# ------------------------------------------------------------------ inert


def _inert_models(tier, seed):
  combos = [((-1,), ('H',)), ((-1,), ('S',)), ((-1,), ('HH',)),
            ((-1,), ('SSH',)), ((-1,), ('F',)), ((-1, 0), ('H', 'H')),
            ((-1, 0), ('F', 'H')), ((-1, 0), ('S', 'HH')),
            ((-1, 0), ('F', 'SH')), ((-1, -1), ('H', 'F')),
            ((-1, 0, 1), ('H', 'H', 'S')), ((-1, 0, 0), ('F', 'H', 'HH')),
            ((-1, 0, 1), ('F', 'HHH', 'H')), ((-1, -1, 1), ('SS', 'F', 'H'))]
  if tier != 'quick':
    combos += [((-1, 0), ('HS', 'SH')), ((-1, 0, 1), ('S', 'S', 'S')),
               ((-1, 0, 0), ('HHH', 'S', 'H')), ((-1, 0, 1), ('HH', 'SH', 'H')),
               ((-1, -1, -1), ('F', 'H', 'S'))]
  out = []
  for sh, ks in combos:
    for a in range(1 if tier == 'quick' else 3):
      rng = scope.rng_for(seed, 'c06', sh, ks, a)
      links = [phys.tmpl(k, p, rng, 1 + (i + a) % 3, passive=int(rng.randint(4)
                                                                  ), limits=2)
               for i, (k, p) in enumerate(zip(ks, sh))]
      for l in links:
        if l['pos'] is None and l['parent'] >= 0:
          l['pos'] = [0.25, 0.1, -0.15]
      s = phys.spec_of(links)
      joints = [(i, j) for i, l in enumerate(links) if l['kind'] != 'F'
                for j in range(len(l['kind']))]
      s['actuators'] = [dict(joint=list(joints[-1]), kind='motor',
                             gear=float(rng.uniform(1, 5)))] if joints else []
      s['option'] = dict(timestep=0.002)
      out.append(s)
  return out


def _variant(spec, v, plane_z=-6.0):
  s = dict(spec)
  s['links'] = [dict(l) for l in spec['links']]
  for l in s['links']:
    if v == 3:
      l['range'] = [[0.2, 0.9] for _ in l['range']]
    g = dict(l['geom'])
    g['collide'] = (v == 1)
    if v == 1:
      # collide with the ground plane only (links may overlap each other)
      g['contype'], g['conaffinity'] = 0, 1
      # a contact margin larger than the 3 cm gap: hovering inside the margin
      # is still "not touching"
      g['extra'] = dict(g.get('extra', {}), margin='0.05')
    l['geom'] = g
    if v not in (2, 3):
      l['range'] = [None] * len(l['range'])
  if v == 1:
    s['world_geoms'] = [dict(type='plane', size=[5, 5, 0.1], collide=True,
                             contype=1, conaffinity=0,
                             pos=[0, 0, plane_z])]
  return s


_F = {}


def _full_step(pipe):
  import jax
  if ('fs', pipe) not in _F:
    p = pipes.module(pipe)

    def f(sys, q, qd, c):
      st = p.step(sys, p.init(sys, q, qd), c)
      return st.q, st.qd, st.x.pos, st.x.rot, st.xd.vel, st.xd.ang
    _F[('fs', pipe)] = jax.jit(jax.vmap(f, in_axes=(None, 0, 0, 0)))
  return _F[('fs', pipe)]


def _min_dist():
  import jax
  from brax import contact, kinematics
  if 'md' not in _F:
    def f(sys, q):
      x, _ = kinematics.forward(sys, q, jax.numpy.zeros(sys.qd_size()))
      return contact.get(sys, x).dist.min()
    _F['md'] = jax.jit(jax.vmap(f, in_axes=(None, 0)))
  return _F['md']


def _plane_height(spec, Q):
  """Ground height 3 cm below the lowest geom point over the grid states,
  measured with MuJoCo (mj_geomDistance), not with the code under test."""
  import mujoco
  _, mj = scope.load(_variant(spec, 1, -6.0))
  d = mujoco.MjData(mj)
  low = np.inf
  for q in Q:
    d.qpos[:] = q
    mujoco.mj_forward(mj, d)
    for g in range(1, mj.ngeom):
      dist = mujoco.mj_geomDistance(mj, d, 0, g, 50.0, None)
      low = min(low, dist)
  return -6.0 + low - 0.03


def _limit_class(spec, pipe):
  """Structural signature of the listed limit findings ('' = none)."""
  if pipe == 'generalized':
    return ''
  if not phys.orthogonal_stacks(spec):
    return ':non-orthogonal-stack-axes'
  if pipe == 'positional' and any(
      l['kind'] == 'HHH' and np.linalg.det(np.array(l['axes'])) < 0
      for l in spec['links']):
    return ':limited-left-handed-three-hinge-stack'
  return ''


def check_inert(spec, pipe, tier, seed, res):
  if pipe != 'generalized' and not phys.all_supported(spec):
    return
  for asym in (False, True):
    _check_inert(spec, pipe, tier, seed, res, asym)


def _check_inert(spec, pipe, tier, seed, res, asym):
  """asym=False: V0 vs V1 (contacts) and V2 (symmetric limits) on |q|<=1.5;
  asym=True: V0 vs V3 (ranges [0.2,0.9] excluding 0) on q in [0.3,0.8]."""
  rng = scope.rng_for(seed, 'c06g', str(scope.skeleton(spec)), pipe, asym)
  qs, _ = scope.coord_grid(spec, rng, hk=3, sk=2, cap=64 if not asym else 32,
                           lo=0.3 if asym else -1.5, hi=0.8 if asym else 1.5)
  if asym:
    off = 0
    for l in spec['links']:
      w = 7 if l['kind'] == 'F' else len(l['kind'])
      if l['kind'] != 'F':
        blk = qs[:, off:off + w]
        blk[blk == 0.0] = 0.55
      off += w
  nq, nv = scope.nq_nv(spec)
  nu = len(spec['actuators'])
  rows = []
  for i, q in enumerate(qs):
    rows.append((q, np.zeros(nv) if i % 3 == 0 else rng.uniform(-1, 1, nv),
                 rng.uniform(-1, 1, nu)))
  Q = np.array([r[0] for r in rows])
  D = np.array([r[1] for r in rows])
  C = np.array([r[2] for r in rows]).reshape(len(rows), nu)
  CH = 64
  outs = {}
  f = _full_step(pipe)
  variants = (0, 3) if asym else (0, 1, 2)
  case = dict(kind='inert', spec=spec, pipe=pipe, seed=seed, tier=tier)
  for v in variants:
    plane_z = _plane_height(spec, Q) if v == 1 else -6.0
    sysv, _ = scope.load(_variant(spec, v, plane_z))
    if v == 1:
      md = np.asarray(_min_dist()(phys.strip(sysv), pipes.pad([Q], CH)[0]))
      if not md.min() > 0:
        res['violations'].append(dict(
            key='C06:separated-contacts:%s' % pipe,
            what='contact detection reports distance %.3g for geometry that '
            'is at least 3 cm above the ground (measured with MuJoCo) '
            '(kinds=%s)' % (md.min(), [l['kind'] for l in spec['links']]),
            case=case))
        return
    a = pipes.pad([Q, D, C], CH)
    outs[v] = [np.asarray(x)[:len(Q)] for x in f(phys.strip(sysv), *a)]
  names = ['q', 'qd', 'x.pos', 'x.rot', 'xd.vel', 'xd.ang']
  lv = 3 if asym else 2
  lim_spec = _variant(spec, lv)
  lim_idx = []
  off = 0
  for l in lim_spec['links']:
    if l['kind'] == 'F':
      off += 7
    else:
      for j in range(len(l['kind'])):
        if l['range'][j] is not None:
          lim_idx.append((off, l['range'][j]))
        off += 1
  for i in range(len(Q)):
    res['evaluations'] += len(variants) - 1
    res['transitions'] += len(variants)
    res['states'] += len(variants)
    res['nontrivial'] += len(variants) - 1
    if not all(np.isfinite(o[i]).all() for o in outs[0]):
      res['extra']['nonfinite'] = res['extra'].get('nonfinite', 0) + 1
      continue
    for v in variants[1:]:
      tag = 'separated-contacts' if v == 1 else 'unreached-limits'
      if v in (2, 3):
        inside = all(r[0] + 1e-3 < Q[i][c] < r[1] - 1e-3 and
                     r[0] + 1e-3 < outs[0][0][i][c] < r[1] - 1e-3 and
                     r[0] + 1e-3 < outs[v][0][i][c] < r[1] - 1e-3
                     for c, r in lim_idx)
        if not inside:
          continue
      for k, nm in enumerate(names):
        e = np.abs(outs[v][k][i] - outs[0][k][i]).max() / (
            1 + np.abs(outs[0][k][i]).max())
        if not e <= 1e-9:
          res['violations'].append(dict(
              key='C06:%s:%s%s' % (tag, pipe, _limit_class(spec, pipe)
                                   if v in (2, 3) else ''),
              what='%s: %s (variant V%d) changes %s by %.3g after one step '
              '(kinds=%s q=%s)' % (pipe, tag, v, nm, e,
                                   [l['kind'] for l in spec['links']],
                                   np.round(Q[i], 3).tolist()), case=case))
          return
    for v in variants:
      ne = np.abs(np.linalg.norm(outs[v][3][i], axis=-1) - 1).max()
      if not ne <= 1e-9:
        res['violations'].append(dict(
            key='C06:unit-quaternion:%s' % pipe,
            what='%s: link rotation norm off by %.3g after one step (variant '
            'V%d, kinds=%s)' % (pipe, ne, v, [l['kind'] for l in
                                              spec['links']]), case=case))
        return
  res['paths'] += len(Q)


# ------------------------------------------------------- ground-plane scenes


def _scene(shape, size, density, elasticity=0.0, dt=0.002, mass_scale=0.0):
  g = dict(type=shape, collide=True, density=density, pos=None, quat=None)
  if shape == 'sphere':
    g['size'] = [size]
  elif shape == 'box':
    g['size'] = [size, size * 0.8, size * 0.6]
  else:
    g['size'] = [size * 0.5, size]
  l = dict(kind='F', parent=-1, axes=[], pos=[0, 0, 1.0], quat=None,
           anchor=None, geom=g, passive=[], range=[])
  return dict(links=[l], world_geoms=[dict(type='plane', size=[5, 5, 0.1],
                                           collide=True, pos=[0, 0, 0])],
              actuators=[], option=dict(timestep=dt),
              custom=dict(elasticity=elasticity, spring_mass_scale=mass_scale,
                          spring_inertia_scale=mass_scale))


def _lowest(shape, size, pos, rot):
  """Lowest point of the geom (z) for link pose (pos, rot)."""
  R = quat_to_mat(rot)
  if shape == 'sphere':
    return pos[2] - size
  if shape == 'box':
    h = np.array([size, size * 0.8, size * 0.6])
    return pos[2] - np.abs(R[2]) @ h
  return pos[2] - size * 0.5 - abs(R[2, 2]) * size


def _traj(pipe):
  import jax
  import jax.numpy as jp
  if ('tr', pipe) not in _F:
    p = pipes.module(pipe)

    def f(sys, q, qd, n):
      st = p.init(sys, q, qd)

      def body(s, _):
        s = p.step(sys, s, jp.zeros(0))
        return s, (s.x.pos[0], s.x.rot[0], s.xd.vel[0], s.xd.ang[0])
      _, tr = jax.lax.scan(body, st, (), length=n)
      return tr
    _F[('tr', pipe)] = jax.jit(f, static_argnums=3)
  return _F[('tr', pipe)]


def _one_step_batch(pipe):
  import jax
  import jax.numpy as jp
  if ('os', pipe) not in _F:
    p = pipes.module(pipe)

    def f(sys, g, q, qd):
      sys = sys.replace(gravity=g)
      s0 = p.init(sys, q, qd)
      s1 = p.step(sys, s0, jp.zeros(0))
      return s1.x.pos[0] - s0.x.pos[0], s1.xd.vel[0], s1.x.rot[0]
    _F[('os', pipe)] = jax.jit(jax.vmap(f, in_axes=(None, 0, 0, 0)))
  return _F[('os', pipe)]


def check_push(shape, pipe, tier, seed, res):
  import jax.numpy as jp
  rng = scope.rng_for(seed, 'c06push', shape)
  rots = scope.cube_rotations() + [scope.generic_quat(rng),
                                   scope.generic_quat(rng)]
  if tier == 'quick':
    rots = rots[::4] + rots[-2:]
  size = 0.15
  for density in (200.0, 1000.0, 3000.0):
    sys, _ = scope.load(_scene(shape, size, density))
    rows = []
    for rot in rots:
      low0 = _lowest(shape, size, np.zeros(3), rot)
      for depth in (0.002, 0.005, 0.01, 0.02):
        for grav in (0.0, -9.81):
          z = -low0 - depth
          rows.append((np.array([0, 0, grav]), np.concatenate(
              [[0.1, -0.2, z], rot]), np.zeros(6), depth))
    CH = 1 << (len(rows) - 1).bit_length()
    a = pipes.pad([np.array([r[0] for r in rows]), np.array([r[1] for r in
                                                              rows]),
                   np.array([r[2] for r in rows])], CH)
    dp, v, rot1 = [np.asarray(x)[:len(rows)] for x in _one_step_batch(pipe)(
        phys.strip(sys), *a)]
    for i, r in enumerate(rows):
      res['evaluations'] += 1
      res['nontrivial'] += 1
      res['transitions'] += 1
      res['states'] += 1
      # contribution of the contact: what the step did beyond free fall
      gdt = r[0][2] * 0.002
      dv = v[i][2] - gdt
      dz = dp[i][2] - gdt * 0.002
      if dz < -1e-12 or dv < -1e-12 or not np.isfinite(dp[i]).all():
        tilted = shape != 'sphere' and not any(
            np.allclose(np.abs(r[1][3:]), np.abs(c)) for c in
            scope.cube_rotations())
        key = 'C06:push-only:%s' % pipe
        if pipe == 'positional' and tilted and dz >= -1e-12:
          key += ':tilted-nonspherical-body-velocity'
        res['violations'].append(dict(
            key=key,
            what='%s: %s penetrating %.0f mm (density %g, gravity %g, rot %s) '
            'was moved along the normal by %.3g and given velocity %.3g '
            'relative to free fall (pulled in)' %
            (pipe, shape, r[3] * 1000, density, r[0][2],
             np.round(r[1][3:], 3).tolist(), dz, dv),
            case=dict(kind='push', shape=shape, pipe=pipe, seed=seed,
                      tier=tier)))
        if not key.endswith('velocity'):
          return
        break
  res['paths'] += 1


def check_rest(shape, pipe, tier, seed, res):
  import jax.numpy as jp
  sizes = (0.05, 0.15, 0.3)
  dens = (200.0, 1000.0, 3000.0)
  heights = (0.0, 0.1, 0.5)
  lat = list(itertools.product(sizes, dens, heights))
  if tier == 'quick':
    lat = [x for i, x in enumerate(lat) if i % 3 == (0, 1, 2, 1, 2, 0, 2, 0, 1
                                                     )[i // 3]]
  f = _traj(pipe)
  n = 1500
  for size, density, h in lat:
    sys, _ = scope.load(_scene(shape, size, density))
    rot = np.array([1.0, 0, 0, 0]) if shape != 'capsule' else np.array(
        [np.sqrt(0.5), 0, np.sqrt(0.5), 0])      # lying capsule
    low0 = _lowest(shape, size, np.zeros(3), rot)
    q = np.concatenate([[0, 0, -low0 + h], rot])
    pos, rt, vel, ang = [np.asarray(x) for x in f(
        phys.strip(sys), jp.asarray(q), jp.zeros(6), n)]
    res['evaluations'] += 1
    res['nontrivial'] += 1
    res['transitions'] += n
    res['states'] += n
    res['paths'] += 1
    case = dict(kind='rest', shape=shape, pipe=pipe, seed=seed, tier=tier)
    if not np.isfinite(pos).all():
      res['violations'].append(dict(key='C06:resting:%s' % pipe,
                                    what='%s: non-finite drop history (%s '
                                    'size %g density %g height %g)' % (
                                        pipe, shape, size, density, h),
                                    case=case))
      return
    low = np.array([_lowest(shape, size, pos[t], rt[t]) for t in range(
        0, n, 3)])
    pen = -low.min()
    want = -low0
    final = pos[-1][2]
    # (the statement's measurable clauses are the sinking bound and the rest
    # height; residual jitter speed is recorded, not judged)
    res['extra'].setdefault('final_vertical_speeds', []).append(
        round(float(abs(vel[-1][2])), 4))
    if pen > 0.05 or abs(final - want) > 0.005:
      res['violations'].append(dict(
          key='C06:resting:%s' % pipe,
          what='%s: %s size %g density %g dropped from %g: max penetration '
          '%.3g m, final centre height %.4f (analytic %.4f), final vertical speed %.3g'
          % (pipe, shape, size, density, h, pen, final, want,
             abs(vel[-1][2])), case=case))
      return


def check_rebound(pipe, tier, seed, res):
  import jax.numpy as jp
  f = _traj(pipe)
  lat = list(itertools.product((0.05, 0.15, 0.3), (0.0, 0.3, 0.6, 0.9),
                               (0.2, 0.5, 1.0)))
  if tier == 'quick':
    lat = lat[::3] + lat[1::7]
  lat = [(r, e, h, 0.0) for r, e, h in lat] + [(0.15, 0.6, 0.5, 0.5),
                                                (0.3, 0.3, 0.2, 0.5)]
  for r, e, h, ms in lat:
    sys, _ = scope.load(_scene('sphere', r, 1000.0, elasticity=e, dt=0.001,
                               mass_scale=ms))
    n = 1200   # one executable: covers the fall from 1 m plus the rebound
    q = np.array([0, 0, r + h, 1, 0, 0, 0.0])
    pos, rt, vel, ang = [np.asarray(x) for x in f(
        phys.strip(sys), jp.asarray(q), jp.zeros(6), n)]
    res['evaluations'] += 1
    res['nontrivial'] += 1
    res['transitions'] += n
    res['states'] += n
    res['paths'] += 1
    vz = vel[:, 2]
    ti = int(np.argmin(vz))
    v_in = -vz[ti]
    v_out = vz[ti:ti + 60].max()
    ratio = v_out / v_in
    lo, hi = (e - 0.02, e + 0.02) if pipe == 'positional' else (e - 0.02,
                                                                 e + 0.2)
    if not (lo <= ratio <= hi):
      res['violations'].append(dict(
          key='C06:rebound:%s' % pipe,
          what='%s: sphere r=%g elasticity %g (mass scale %g) dropped from %g: rebound/impact '
          'speed ratio %.4f outside [%.2f, %.2f] (impact %.3f, rebound %.3f)'
          % (pipe, r, e, ms, h, ratio, lo, hi, v_in, v_out),
          case=dict(kind='rebound', pipe=pipe, seed=seed, tier=tier)))
      return


def tasks(tier, seed):
  ts = []
  for k, g in phys.group_by_skeleton(_inert_models(tier, seed)):
    for pipe in pipes.NAMES:
      ts.append(dict(name='inert %s %s' % (pipe, k[:2]), kind='inert',
                     specs=g, pipe=pipe, cost=90))
  for shape in ('sphere', 'box', 'capsule'):
    for pipe in pipes.NAMES:
      ts.append(dict(name='push %s %s' % (pipe, shape), kind='push',
                     shape=shape, pipe=pipe, cost=40))
      ts.append(dict(name='rest %s %s' % (pipe, shape), kind='rest',
                     shape=shape, pipe=pipe, cost=120))
  for pipe in ('spring', 'positional'):
    ts.append(dict(name='rebound %s' % pipe, kind='rebound', pipe=pipe,
                   cost=100))
  return ts


def run_task(task):
  res = dict(evaluations=0, nontrivial=0, states=0, transitions=0, paths=0,
             violations=[], samples=[], outcomes=[], extra={}, caps=[])
  k, pipe, tier, seed = task['kind'], task['pipe'], task['tier'], task['seed']
  if k == 'inert':
    for spec in task['specs']:
      check_inert(spec, pipe, tier, seed, res)
    res['samples'].append(dict(kind='inert', pipe=pipe,
                               model=phys.describe(task['specs'][0])))
  elif k == 'push':
    check_push(task['shape'], pipe, tier, seed, res)
    res['samples'].append(dict(kind='push-only', pipe=pipe,
                               shape=task['shape']))
  elif k == 'rest':
    check_rest(task['shape'], pipe, tier, seed, res)
    res['samples'].append(dict(kind='resting', pipe=pipe, shape=task['shape']))
  else:
    check_rebound(pipe, tier, seed, res)
    res['samples'].append(dict(kind='rebound', pipe=pipe))
  res['outcomes'] = [task['name']]
  return res


def replay(rec):
  c = rec['case']
  res = dict(evaluations=0, nontrivial=0, states=0, transitions=0, paths=0,
             violations=[], extra={})
  if c['kind'] == 'inert':
    check_inert(c['spec'], c['pipe'], c['tier'], c['seed'], res)
  elif c['kind'] == 'push':
    check_push(c['shape'], c['pipe'], c['tier'], c['seed'], res)
  elif c['kind'] == 'rest':
    check_rest(c['shape'], c['pipe'], c['tier'], c['seed'], res)
  else:
    check_rebound(c['pipe'], c['tier'], c['seed'], res)
  return (not res['violations']), '\n'.join(v['what'] for v in
                                            res['violations']) or 'holds'
