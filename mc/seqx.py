"""ENGINE C: explicit-state explorer over operation sequences on real objects.

A *system* supplies
  init()                 -> state           (real object(s) + reference model)
  enabled(state)         -> list of ops     (small finite menu, simplest first)
  apply(state, op)       -> (state', problems, outcome)
        calls the REAL implementation and the reference model, compares every
        observable; problems is a list of (key, what) pairs (empty = agrees);
        outcome is a hashable summary of what the implementation returned
        (used only for the distinct-outcome counter); state' is None when the
        operation was refused and the state is (checked to be) unchanged.
  canon(state)           -> hashable        (optional) canonical form

Two searches:
  dfs_tree   every operation sequence up to `depth` (no de-duplication); if
             canon is given, the bisimulation cross-check runs over the whole
             tree: two histories with the same canonical form must have the same
             enabled set and canonically equal successors / outcomes classes.
  bfs_closure  breadth-first over canonical states until the reachable
             canonical graph is closed (or `max_depth` is hit, which is reported
             as a cap); every edge is one call of the real implementation from a
             concrete representative.
"""

import collections


class Stats:

  def __init__(self):
    self.nodes = 0          # tree nodes / distinct canonical states
    self.transitions = 0
    self.paths = 0          # complete root-to-leaf histories
    self.max_depth = 0
    self.outcomes = set()
    self.problems = []      # (key, what, history)
    self.abstraction_errors = []
    self.caps = []


def dfs_tree(system, depth, stats=None, max_problems=50):
  """All operation sequences of length <= depth, prefixes shared."""
  st = stats or Stats()
  succ_by_canon = {}
  canon = getattr(system, 'canon', None)

  def visit(state, hist):
    st.nodes += 1
    st.max_depth = max(st.max_depth, len(hist))
    if len(hist) == depth:
      st.paths += 1
      return
    ops = system.enabled(state)
    sig = []
    for op in ops:
      nxt, problems, outcome = system.apply(state, op)
      st.transitions += 1
      st.outcomes.add(outcome)
      for key, what in problems:
        if len(st.problems) < max_problems:
          st.problems.append((key, what, list(hist) + [op]))
      if canon is not None:
        sig.append((op, None if nxt is None else canon(nxt),
                    system.outcome_class(outcome)
                    if hasattr(system, 'outcome_class') else None))
      if nxt is None:       # refused, state unchanged: leaf of this branch
        st.paths += 1
        continue
      if problems:          # do not explore below a disagreeing state
        st.paths += 1
        continue
      visit(nxt, hist + [op])
    if canon is not None:
      c = canon(state)
      sig = tuple(sig)
      if c in succ_by_canon:
        if succ_by_canon[c][0] != sig and len(st.abstraction_errors) < 10:
          st.abstraction_errors.append(
              dict(canon=repr(c), a=repr(succ_by_canon[c]),
                   b=repr((sig, list(hist)))))
      else:
        succ_by_canon[c] = (sig, list(hist))

  visit(system.init(), [])
  return st


def bfs_closure(system, max_depth, stats=None, max_problems=50):
  """Closes the reachable canonical state graph (one representative each)."""
  st = stats or Stats()
  s0 = system.init()
  seen = {system.canon(s0): 0}
  frontier = collections.deque([(s0, [])])
  closed = True
  while frontier:
    state, hist = frontier.popleft()
    st.max_depth = max(st.max_depth, len(hist))
    if len(hist) >= max_depth:
      closed = False
      continue
    for op in system.enabled(state):
      nxt, problems, outcome = system.apply(state, op)
      st.transitions += 1
      st.outcomes.add(outcome)
      for key, what in problems:
        if len(st.problems) < max_problems:
          st.problems.append((key, what, list(hist) + [op]))
      if nxt is None or problems:
        continue
      c = system.canon(nxt)
      if c not in seen:
        seen[c] = len(hist) + 1
        frontier.append((nxt, hist + [op]))
  st.nodes += len(seen)
  st.paths += len(seen)
  if not closed:
    st.caps.append('bfs depth cap %d reached before closure' % max_depth)
  return st, seen


def replay_history(system, hist):
  """Plain re-execution of one history, no explorer; returns problems."""
  state = system.init()
  out = []
  for i, op in enumerate(hist):
    nxt, problems, outcome = system.apply(state, op)
    out.append(dict(step=i, op=op, outcome=repr(outcome),
                    problems=[list(p) for p in problems]))
    if problems:
      break
    if nxt is not None:
      state = nxt
  return out
