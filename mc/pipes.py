"""Shared access to the three native pipelines with skeleton-level jit reuse."""

import numpy as np

NAMES = ('generalized', 'spring', 'positional')


def module(name):
  if name == 'generalized':
    from brax.generalized import pipeline as p
  elif name == 'spring':
    from brax.spring import pipeline as p
  else:
    from brax.positional import pipeline as p
  return p


_CACHE = {}


def jitted(name, what):
  """what in {'init', 'step', 'init_step'}; sys is an ARGUMENT (stripped)."""
  import jax
  key = (name, what)
  if key not in _CACHE:
    p = module(name)
    if what == 'init':
      f = lambda sys, q, qd: p.init(sys, q, qd)
      _CACHE[key] = jax.jit(jax.vmap(f, in_axes=(None, 0, 0)))
    elif what == 'step':
      f = lambda sys, st, c: p.step(sys, st, c)
      _CACHE[key] = jax.jit(jax.vmap(f, in_axes=(None, 0, 0)))
    else:
      f = lambda sys, q, qd, c: p.step(sys, p.init(sys, q, qd), c)
      _CACHE[key] = jax.jit(jax.vmap(f, in_axes=(None, 0, 0, 0)))
  return _CACHE[key]


def pad(arrs, n):
  """Pads leading axis of each array to n by repeating the last row."""
  out = []
  for a in arrs:
    a = np.asarray(a)
    m = len(a)
    if m < n:
      a = np.concatenate([a, np.repeat(a[-1:], n - m, 0)])
    out.append(a)
  return out
