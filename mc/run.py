"""Runner: ./check <ID> [--tier quick|thorough] [--replay f] | --selftest.

Loads mc.props.<id>, fans its tasks out over a spawn pool, merges counters
measured by the tasks, applies the known-findings file, writes
evidence/<ID>.json and prints VIOLATION / KNOWN-FINDING lines.
"""

import argparse
import hashlib
import importlib
import json
import multiprocessing as mp
import os
import subprocess
import sys
import time
import traceback

ROOT = os.path.dirname(os.path.dirname(os.path.abspath(__file__)))
NCPU = 16
MAX_REPLAYS_PER_KEY = 3
MAX_VIOLATION_LINES = 40


def _module(pid):
  return importlib.import_module('mc.props.' + pid.lower())


def _base_env(mod):
  """Environment that must be in place before jax is imported anywhere."""
  flags = '--xla_cpu_multi_thread_eigen=false'
  extra = getattr(mod, 'XLA_FLAGS', '')
  os.environ['XLA_FLAGS'] = (extra + ' ' + flags).strip()
  os.environ['JAX_ENABLE_X64'] = '1' if getattr(mod, 'X64', True) else '0'
  os.environ.setdefault('OMP_NUM_THREADS', '1')
  os.environ.setdefault('OPENBLAS_NUM_THREADS', '1')
  os.environ.setdefault('MKL_NUM_THREADS', '1')
  if os.environ.get('VERIF_JAX_CACHE', '1') == '1':
    cache = os.path.join(ROOT, '.cache', 'jax')
    os.makedirs(cache, exist_ok=True)
    os.environ['JAX_COMPILATION_CACHE_DIR'] = cache
    os.environ.setdefault('JAX_PERSISTENT_CACHE_MIN_COMPILE_TIME_SECS', '1.0')


def _pin(counter):
  # one core per worker: fixed reduction order, no oversubscription
  with counter.get_lock():
    i = counter.value
    counter.value += 1
  try:
    os.sched_setaffinity(0, {i % (os.cpu_count() or 1)})
  except (AttributeError, OSError):
    pass


def _run_in_subprocess(pid, task):
  """Tasks that need their own process environment (e.g. device count)."""
  env = dict(os.environ)
  env.update(task['env'])
  t = dict(task)
  t.pop('env')
  p = subprocess.run([sys.executable, '-m', 'mc.run', pid, '--task-json',
                      json.dumps(t)], capture_output=True, text=True, env=env,
                     cwd=ROOT)
  marker = '@@RESULT@@'
  if p.returncode != 0 or marker not in p.stdout:
    return {'errors': ['subprocess task failed rc=%d\n%s\n%s' %
                       (p.returncode, p.stdout[-2000:], p.stderr[-4000:])]}
  return json.loads(p.stdout.split(marker, 1)[1])


def _worker(args):
  pid, task = args
  t0 = time.time()
  if task.get('env'):
    res = _run_in_subprocess(pid, task)
    res.setdefault('errors', [])
    res['task_wall_s'] = time.time() - t0
    res['task_name'] = task.get('name', '')
    return res
  try:
    os.chdir(os.path.join(ROOT, '.cache'))  # MUJOCO_LOG.TXT etc. land here
    mod = _module(pid)
    res = mod.run_task(task)
    res.setdefault('errors', [])
  except Exception as e:  # pylint: disable=broad-except
    tb = traceback.extract_tb(e.__traceback__)
    roots = ('/repo/', os.environ.get('VERIF_REPO', '/repo') + '/')
    in_repo = [f for f in tb if f.filename.startswith(roots)]
    if in_repo:
      # the library itself raised while being driven inside its documented
      # domain: that is a finding about the code, reported with the task as
      # the replayable case (never silently dropped, never a harness error)
      last = in_repo[-1]
      res = {'violations': [dict(
          key='%s:raises:%s' % (pid, type(e).__name__),
          what='%s at %s:%d (%s): %s' % (type(e).__name__,
                                         last.filename.split('/brax/', 1)[-1],
                                         last.lineno, last.name,
                                         str(e)[:300]),
          case=dict(kind='task', task=task))], 'evaluations': 1}
    else:
      res = {'errors': [traceback.format_exc()], 'task': task}
  res['task_wall_s'] = time.time() - t0
  res['task_name'] = task.get('name', '')
  try:
    if 'jax' in sys.modules:
      sys.modules['jax'].clear_caches()
  except Exception:  # pylint: disable=broad-except
    pass
  return res


def _loop(pid, task_q, result_q, slot, maxtasks):
  """Worker: serves at most maxtasks tasks, then exits (memory hygiene)."""
  try:
    os.sched_setaffinity(0, {slot % (os.cpu_count() or 1)})
  except (AttributeError, OSError):
    pass
  for _ in range(maxtasks):
    item = task_q.get()
    if item is None:
      return
    i, task = item
    result_q.put(('start', slot, i, None))
    res = _worker((pid, task))
    result_q.put(('done', slot, i, res))


def _run_pool(pid, tasks, nproc, maxtasks):
  """Own process pool: recycles workers, survives a killed worker."""
  import queue as _queue
  ctx = mp.get_context('spawn')
  task_q, result_q = ctx.Queue(), ctx.Queue()
  for i, t in enumerate(tasks):
    task_q.put((i, t))
  procs, inflight = {}, {}
  results = {}

  def spawn(slot):
    p = ctx.Process(target=_loop, args=(pid, task_q, result_q, slot, maxtasks))
    p.daemon = True
    p.start()
    procs[slot] = p
  for slot in range(nproc):
    spawn(slot)
  while len(results) < len(tasks):
    try:
      kind, slot, i, res = result_q.get(timeout=1.0)
      if kind == 'start':
        inflight[slot] = i
      else:
        results[i] = res
        inflight.pop(slot, None)
      continue
    except _queue.Empty:
      pass
    for slot, p in list(procs.items()):
      if p.is_alive():
        continue
      p.join()
      if slot in inflight:          # died with a task in hand
        i = inflight.pop(slot)
        if i not in results:
          results[i] = {'errors': ['worker died (exit code %s) on task %s' %
                                   (p.exitcode, tasks[i].get('name'))]}
      if len(results) + len(inflight) < len(tasks):
        spawn(slot)
      else:
        procs.pop(slot)
  for p in procs.values():
    task_q.put(None)
  for p in procs.values():
    p.join(timeout=5)
    if p.is_alive():
      p.terminate()
  return [results[i] for i in range(len(tasks))]


def _merge(results):
  tot = dict(evaluations=0, nontrivial=0, states=0, transitions=0, paths=0,
             caps=[], violations=[], errors=[], samples=[], extra={},
             outcomes=set())
  for r in results:
    for k in ('evaluations', 'nontrivial', 'states', 'transitions', 'paths'):
      tot[k] += int(r.get(k, 0))
    tot['caps'] += r.get('caps', [])
    tot['violations'] += r.get('violations', [])
    tot['errors'] += r.get('errors', [])
    tot['samples'] += r.get('samples', [])
    tot['outcomes'] |= set(r.get('outcomes', []))
    for k, v in r.get('extra', {}).items():
      if isinstance(v, (int, float)):
        tot['extra'][k] = tot['extra'].get(k, 0) + v
      elif isinstance(v, list):
        tot['extra'].setdefault(k, [])
        tot['extra'][k] += v
      else:
        tot['extra'][k] = v
  return tot


def load_known(pid):
  with open(os.path.join(ROOT, 'known_findings.json')) as f:
    kf = json.load(f)
  return {e['key']: e for e in kf.get('known', []) if e['property'] == pid}


def _pick_samples(samples, n=3):
  if len(samples) <= n:
    return samples
  return [samples[0], samples[len(samples) // 2], samples[-1]]


def validate_json(path, schema):
  """Validates with the tooling interpreter (jsonschema lives there)."""
  code = ('import json,sys,jsonschema;'
          'jsonschema.validate(json.load(open(sys.argv[1])),'
          'json.load(open(sys.argv[2])))')
  try:
    p = subprocess.run(['python3-vt', '-c', code, path, schema],
                       capture_output=True, text=True, timeout=60)
    if p.returncode != 0:
      return False, p.stderr[-2000:]
    return True, ''
  except (OSError, subprocess.TimeoutExpired) as e:
    return _structural_check(path), 'fallback structural check: %r' % (e,)


def _structural_check(path):
  d = json.load(open(path))
  need = ['property_id', 'tier', 'seed', 'level', 'coverage', 'wall_s']
  if any(k not in d for k in need):
    return False
  c = d['coverage']
  if d['level'] == 'model_checking':
    return (c.get('states', 0) >= 1 and c.get('transitions', 0) >= 1 and
            len(c.get('samples', [])) >= 1)
  return (c.get('evaluations', 0) >= 1 and c.get('distinct_nontrivial', 0) >= 2
          and len(c.get('samples', [])) >= 1 and 'rule' in c)


def run_check(pid, tier, seed):
  mod = _module(pid)
  _base_env(mod)
  os.makedirs(os.path.join(ROOT, '.cache'), exist_ok=True)
  t0 = time.time()
  tasks = mod.tasks(tier, seed)
  for t in tasks:
    t.setdefault('tier', tier)
    t.setdefault('seed', seed)
  tasks.sort(key=lambda t: -t.get('cost', 1))
  nproc = max(1, min(NCPU, len(tasks), int(os.environ.get('VERIF_JOBS', NCPU))))
  if nproc == 1 or getattr(mod, 'INPROCESS', False):
    results = [_worker((pid, t)) for t in tasks]
  else:
    results = _run_pool(pid, tasks, nproc, getattr(mod, 'MAXTASKS', 12))
  tot = _merge(results)
  if hasattr(mod, 'finalize'):
    mod.finalize(tot, tier, seed)
  wall = time.time() - t0

  known = load_known(pid)
  rc = 0
  by_key = {}
  for v in tot['violations']:
    by_key.setdefault(v['key'], []).append(v)
  lines = 0
  n_unlisted = 0
  for key in sorted(by_key):
    vs = by_key[key]
    if key in known:
      print('KNOWN-FINDING: property=%s %s [%s] (%d cases this run)' %
            (pid, known[key]['what'], key, len(vs)))
      continue
    rc = 1
    n_unlisted += len(vs)
    os.makedirs(os.path.join(ROOT, 'replays', pid), exist_ok=True)
    for v in vs[:MAX_REPLAYS_PER_KEY]:
      blob = json.dumps(v, sort_keys=True, default=str)
      h = hashlib.sha1(blob.encode()).hexdigest()[:12]
      path = os.path.join(ROOT, 'replays', pid, h + '.json')
      with open(path, 'w') as f:
        json.dump(dict(v, property=pid), f, indent=1, sort_keys=True,
                  default=str)
      if lines < MAX_VIOLATION_LINES:
        print('VIOLATION property=%s replay=%s' % (pid, path))
        print('  key=%s what=%s' % (key, str(v.get('what'))[:300]))
        lines += 1
    if len(vs) > MAX_REPLAYS_PER_KEY:
      print('  (+%d more cases with key %s)' % (len(vs) - MAX_REPLAYS_PER_KEY,
                                                key))
  for e in tot['errors']:
    rc = rc or 2
    print('HARNESS-ERROR property=%s\n%s' % (pid, e), file=sys.stderr)
  vac = getattr(mod, 'vacuous', None)
  if vac is not None:
    why = vac(tot, tier)
    if why and rc == 0:
      rc = rc or 2
      print('HARNESS-ERROR property=%s vacuous run: %s' % (pid, why),
            file=sys.stderr)

  level = mod.LEVEL
  cov = {
      'evaluations': tot['evaluations'],
      'distinct_nontrivial': tot['nontrivial'],
      'rule': mod.RULE,
      'samples': _pick_samples(tot['samples']) +
                 [v for v in tot['violations'][:5]],
      'exhaustive': (not tot['caps']) and not tot['errors'],
      'caps_hit': tot['caps'],
      'tasks': len(tasks),
      'distinct_outcomes': len(tot['outcomes']),
      'known_finding_cases': sum(len(v) for k, v in by_key.items()
                                 if k in known),
      'unlisted_violation_cases': n_unlisted,
  }
  if level == 'model_checking':
    cov['states'] = tot['states']
    cov['transitions'] = tot['transitions']
    cov['traces_validated_against_impl'] = tot['paths']
  cov.update(tot['extra'])
  ev = {
      'property_id': pid,
      'tier': tier,
      'seed': seed,
      'level': level,
      'coverage': cov,
      'assumptions': list(getattr(mod, 'ASSUMPTIONS', [])),
      'wall_s': round(wall, 2),
      'violations': n_unlisted,
  }
  evpath = os.path.join(ROOT, 'evidence', pid + '.json')
  if os.environ.get('VERIF_REPO') or os.environ.get('VERIF_NO_EVIDENCE'):
    # runs against a scratch/mutated tree never touch the committed evidence
    evpath = os.path.join(ROOT, '.cache', 'scratch_evidence', pid + '.json')
  os.makedirs(os.path.dirname(evpath), exist_ok=True)
  with open(evpath, 'w') as f:
    json.dump(ev, f, indent=1, sort_keys=True, default=str)
  ok, msg = validate_json(evpath, '/root/.vp/EVIDENCE.schema.json')
  if not ok:
    rc = rc or 2
    print('HARNESS-ERROR evidence does not validate: %s' % msg,
          file=sys.stderr)
  print('%s %s tier=%s seed=%d tasks=%d evaluations=%d nontrivial=%d '
        'states=%d transitions=%d paths=%d outcomes=%d caps=%d '
        'known=%d violations=%d wall=%.1fs' %
        ('OK' if rc == 0 else 'FAIL', pid, tier, seed, len(tasks),
         tot['evaluations'], tot['nontrivial'], tot['states'],
         tot['transitions'], tot['paths'], len(tot['outcomes']),
         len(tot['caps']), cov['known_finding_cases'], n_unlisted, wall))
  return rc


def run_replay(pid, path):
  mod = _module(pid)
  _base_env(mod)
  os.makedirs(os.path.join(ROOT, '.cache'), exist_ok=True)
  path = os.path.abspath(path)
  rec = json.load(open(path))
  if hasattr(mod, 'replay_env'):
    os.environ.update(mod.replay_env(rec))
  os.chdir(os.path.join(ROOT, '.cache'))
  if rec.get('case', {}).get('kind') == 'task':
    res = _worker((pid, rec['case']['task']))
    vs = res.get('violations', [])
    ok = not vs and not res.get('errors')
    text = '\n'.join([v['what'] for v in vs] + res.get('errors', []))
  else:
    ok, text = mod.replay(rec)
  print(text)
  if ok:
    print('replay: property holds on this case')
    return 0
  print('VIOLATION property=%s replay=%s' % (pid, path))
  return 1


def selftest():
  """setup_cmd: imports, manifest validation, engine determinism."""
  rc = 0
  ok, msg = validate_json(os.path.join(ROOT, 'MANIFEST.json'),
                          '/root/.vp/MANIFEST.schema.json')
  print('manifest valid:', ok, msg)
  rc |= 0 if ok else 1
  man = json.load(open(os.path.join(ROOT, 'MANIFEST.json')))
  json.load(open(os.path.join(ROOT, 'known_findings.json')))
  for c in man['checks']:
    pid = c['property_id']
    try:
      mod = _module(pid)
      for attr in ('LEVEL', 'RULE', 'tasks', 'run_task', 'replay'):
        assert hasattr(mod, attr), attr
      print('module ok:', pid)
    except Exception:
      traceback.print_exc()
      rc = 1
  # determinism guard: one recorded case of each engine, two processes
  for pid in [c['property_id'] for c in man['checks']]:
    mod = _module(pid)
    if not hasattr(mod, 'determinism_case'):
      continue
    outs = []
    for _ in range(2):
      p = subprocess.run(
          [sys.executable, '-m', 'mc.run', pid, '--determinism'],
          capture_output=True, text=True, cwd=ROOT)
      outs.append(p.stdout)
      if p.returncode != 0:
        print(p.stderr[-2000:])
        rc = 1
    same = outs[0] == outs[1] and outs[0] != ''
    print('determinism %s: %s (%s)' %
          (pid, same, hashlib.sha1(outs[0].encode()).hexdigest()[:10]))
    rc |= 0 if same else 1
  return rc


def main():
  ap = argparse.ArgumentParser()
  ap.add_argument('pid', nargs='?')
  ap.add_argument('--tier', default=None)
  ap.add_argument('--replay', default=None)
  ap.add_argument('--selftest', action='store_true')
  ap.add_argument('--determinism', action='store_true')
  ap.add_argument('--task-json', default=None)
  a = ap.parse_args()
  if a.selftest:
    sys.exit(selftest())
  pid = a.pid.upper()
  if a.determinism:
    mod = _module(pid)
    _base_env(mod)
    print(json.dumps(mod.determinism_case(), sort_keys=True, default=str))
    sys.exit(0)
  if a.task_json:
    mod = _module(pid)
    os.makedirs(os.path.join(ROOT, '.cache'), exist_ok=True)
    res = _worker((pid, json.loads(a.task_json)))
    if 'outcomes' in res:
      res['outcomes'] = sorted(res['outcomes'])
    print('@@RESULT@@' + json.dumps(res, default=str))
    sys.exit(0)
  if a.replay:
    sys.exit(run_replay(pid, a.replay))
  tier = os.environ.get('VERIF_TIER') or a.tier or 'quick'
  seed = int(os.environ.get('VERIF_SEED', '0'))
  sys.exit(run_check(pid, tier, seed))


if __name__ == '__main__':
  main()
