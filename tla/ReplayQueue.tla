---------------------------- MODULE ReplayQueue ----------------------------
(* Reference model of brax.training.replay_buffers.Queue (one shard).        *)
(* Records are consecutive naturals, so every record is unique and its age   *)
(* is readable.  MaxRec bounds the number of records ever inserted, which    *)
(* makes the state space finite; TLC's state graph is replayed edge by edge  *)
(* against the real implementation by mc/props/c17.py (kind 'tla').          *)
EXTENDS Naturals, Sequences
CONSTANTS Cap, Batch, Cyclic, MaxRec
VARIABLES held, cursor, next, out

vars == <<held, cursor, next, out>>

Init == /\ held = <<>>
        /\ cursor = 0
        /\ next = 0
        /\ out = <<>>

Insert(k) ==
  /\ next + k <= MaxRec
  /\ LET all == held \o [i \in 1..k |-> next + i - 1]
         e   == IF Len(all) > Cap THEN Len(all) - Cap ELSE 0
     IN /\ held' = SubSeq(all, e + 1, Len(all))
        /\ cursor' = IF cursor > e THEN cursor - e ELSE 0
  /\ next' = next + k
  /\ out' = <<>>

Avail == IF Cyclic THEN Len(held) ELSE Len(held) - cursor

Sample ==
  /\ Avail >= Batch
  /\ IF Cyclic
       THEN /\ out' = [i \in 1..Batch |->
                         held[((cursor + i - 1) % Len(held)) + 1]]
            /\ cursor' = (cursor + Batch) % Len(held)
       ELSE /\ out' = SubSeq(held, cursor + 1, cursor + Batch)
            /\ cursor' = cursor + Batch
  /\ UNCHANGED <<held, next>>

Next == (\E k \in 1..Cap : Insert(k)) \/ Sample

Spec == Init /\ [][Next]_vars

(* the queue holds exactly the most recent <= Cap records in insertion order *)
Fifo == /\ Len(held) <= Cap
        /\ Len(held) = (IF next < Cap THEN next ELSE Cap)
        /\ \A i \in 1..Len(held) : held[i] = next - Len(held) + i - 1
CursorOk == cursor <= Len(held)
(* a returned batch is oldest-first among what was unsampled / cyclic order  *)
OutOk == \A i \in 1..Len(out) : \E j \in 1..Len(held) : held[j] = out[i]
Inv == Fifo /\ CursorOk /\ OutOk
=============================================================================
